#!/bin/bash
# tools/verify_seed.sh <PID> <src dir with patch.diff demo.py meta.json> <name>
# Confirms a seeded change in a scratch worktree (outside /repo and /verif):
#   demo fails with the patch, full test suite passes with the patch,
#   demo passes without it; then runs ./check <PID> against the patched
#   worktree and records the outcome in /verif/seeded/<name>/meta.json.
set -u
PID="$1"; SRC="$2"; NAME="$3"
HERE="$(cd "$(dirname "$0")/.." && pwd)"
WT="/tmp/wt/verify-$NAME-$$"
OUT="$HERE/seeded/$NAME"
git -C /repo worktree add -q --detach "$WT" HEAD || exit 2
cleanup() { git -C /repo worktree remove --force "$WT" >/dev/null 2>&1; }
trap cleanup EXIT
cd "$WT"
if ! git apply "$SRC/patch.diff"; then echo "$NAME: patch does not apply"; exit 2; fi
PYTHONPATH="$WT" timeout 900 /venv/bin/python "$SRC/demo.py" >/tmp/wt/demo-$NAME.log 2>&1; DEMO_WITH=$?
if [ -n "${SKIP_SUITE:-}" ] && [ -f "$OUT/meta.json" ] && cmp -s "$SRC/patch.diff" "$OUT/patch.diff"; then
  # re-check of an already confirmed, unchanged patch: reuse the suite result
  TESTS=$(/venv/bin/python -c "import json;print(json.load(open('$OUT/meta.json'))['confirmed']['test_suite_exit_with_patch'])")
  TESTLINE=$(/venv/bin/python -c "import json;print(json.load(open('$OUT/meta.json'))['confirmed']['test_suite_summary'])")
else
PYTHONPATH="$WT" /venv/bin/python -m pytest -q -p no:cacheprovider -n ${NJOBS:-8} tests >/tmp/wt/tests-$NAME.log 2>&1; TESTS=$?
TESTLINE="$(tail -1 /tmp/wt/tests-$NAME.log)"
fi
# run the check against the patched worktree
( cd "$HERE" && VERIF_REPO="$WT" PYTHONPATH="$WT" ${TIER_ENV:-} ./check "${CHECK_ID:-$PID}" >/tmp/wt/check-$NAME.log 2>&1 ); CHECK=$?
git checkout -q -- .
PYTHONPATH="$WT" timeout 900 /venv/bin/python "$SRC/demo.py" >/tmp/wt/demo0-$NAME.log 2>&1; DEMO_WITHOUT=$?
mkdir -p "$OUT"
cp "$SRC/patch.diff" "$OUT/patch.diff"; cp "$SRC/demo.py" "$OUT/demo.py"
VIOL="$(grep -A1 '^VIOLATION' /tmp/wt/check-$NAME.log | grep 'sub-check' | sort | uniq -c | head -5 | tr '\n' ';')"
/venv/bin/python - "$SRC/meta.json" "$OUT/meta.json" "$PID" "$DEMO_WITH" "$TESTS" "$TESTLINE" "$DEMO_WITHOUT" "$CHECK" "$VIOL" "${CHECK_ID:-$PID}" <<'PY'
import json, sys
src, out, pid, dw, tests, tl, dwo, chk, viol, chk_id = sys.argv[1:]
try: meta = json.load(open(src))
except Exception: meta = {}
meta["property"] = pid
meta["confirmed"] = {
  "how": "tools/verify_seed.sh in a scratch worktree of /repo HEAD (removed afterwards)",
  "demo_exit_with_patch": int(dw), "demo_exit_without_patch": int(dwo),
  "test_suite_exit_with_patch": int(tests), "test_suite_summary": tl,
  "check_cmd": f"VERIF_REPO=<worktree> PYTHONPATH=<worktree> ./check {chk_id}",
  "check_exit_with_patch": int(chk), "check_violations": viol,
}
meta["kept"] = int(dw) != 0 and int(dwo) == 0 and int(tests) == 0
meta["caught_by_quick_check"] = int(chk) == 1
meta["checked_with"] = chk_id
json.dump(meta, open(out, "w"), indent=1)
print(out, "kept" if meta["kept"] else "REJECTED", "caught" if meta["caught_by_quick_check"] else f"NOT CAUGHT (exit {chk})", tl)
PY
rm -f /tmp/wt/demo-$NAME.log /tmp/wt/demo0-$NAME.log /tmp/wt/tests-$NAME.log
