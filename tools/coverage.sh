#!/bin/bash
# tools/coverage.sh "<ids>" [tier]  : line coverage of /repo/adcgen reached by the
# registered checks (measurement of the generators, not a check). Writes
# .scratch/cov/<ID>/ data and prints, per check, the coverage of the files the
# property is anchored in plus the union over all checks run.
HERE="$(cd "$(dirname "$0")/.." && pwd)"; cd "$HERE"
IDS="${1:-C01 C02 C03 C04 C05 C06 C07 C08 C09 C10 C11 C12 C13 C14 C15 C16 C17 C18 C19 C20}"
TIER="${2:-quick}"
REPO="${VERIF_REPO:-/repo}"
COV="$HERE/.scratch/cov"; mkdir -p "$COV"
for p in $IDS; do
  D="$COV/$p"; rm -rf "$D"; mkdir -p "$D"
  cat > "$D/rc" <<RC
[run]
source = $REPO/adcgen
parallel = True
data_file = $D/data
disable_warnings = no-data-collected,module-not-measured,couldnt-parse
RC
  COVERAGE_PROCESS_START="$D/rc" COVERAGE_CORE=sysmon PYTHONPATH="$HERE/tools/cov" \
     ./check $p --tier $TIER > "$D/check.log" 2>&1
  echo "$p rc=$? $(tail -1 "$D/check.log")"
  ( cd "$D" && /venv/bin/python -m coverage combine --rcfile=rc -q >/dev/null 2>&1 )
done
/venv/bin/python "$HERE/tools/cov_report.py" "$COV" $IDS
