# Opt-in line coverage of adcgen in every python process started by a check
# (tools/coverage.sh puts this directory on PYTHONPATH and sets
# COVERAGE_PROCESS_START).  Measurement only: never used by a registered check.
import os
if os.environ.get("COVERAGE_PROCESS_START"):
    try:
        import coverage
        coverage.process_startup()
    except Exception:
        pass
