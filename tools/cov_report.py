"""Per-check and union line coverage of adcgen (see tools/coverage.sh)."""
import json, os, sys
import coverage

cov_dir, ids = sys.argv[1], sys.argv[2:]
here = os.path.dirname(os.path.dirname(os.path.abspath(__file__)))
props = {json.loads(l)["id"]: json.loads(l) for l in open(os.path.join(here, "properties.jsonl"))}
repo = os.environ.get("VERIF_REPO", "/repo")
union = {}
summary = {}
for pid in ids:
    df = os.path.join(cov_dir, pid, "data")
    if not os.path.exists(df):
        print(pid, "no data"); continue
    c = coverage.Coverage(data_file=df, config_file=os.path.join(cov_dir, pid, "rc"))
    c.load()
    data = c.get_data()
    row = {}
    for f in props[pid]["anchors"]["files"]:
        full = os.path.join(repo, f)
        try:
            _, stmts, _, missing, _ = c.analysis2(full)
        except Exception as exc:
            row[f] = f"n/a ({type(exc).__name__})"; continue
        row[f] = {"statements": len(stmts), "missed": len(missing),
                  "pct": round(100 * (1 - len(missing) / max(1, len(stmts))), 1),
                  "missing": missing}
    summary[pid] = row
    for f in data.measured_files():
        union.setdefault(f, set()).update(data.lines(f) or ())
    print(pid, {f: (r if isinstance(r, str) else f"{r['pct']}% ({r['missed']} of {r['statements']} missed)") for f, r in row.items()})
json.dump(summary, open(os.path.join(cov_dir, "summary.json"), "w"), indent=1)
# union over all checks
tot_s = tot_m = 0
c = coverage.Coverage(data_file=None)
print("--- union over the checks run ---")
import glob
for full in sorted(glob.glob(os.path.join(repo, "adcgen", "**", "*.py"), recursive=True)):
    from coverage.python import PythonParser
    try:
        p = PythonParser(filename=full); p.parse_source()
        stmts = p.statements
    except Exception:
        continue
    hit = union.get(full, set())
    missed = sorted(s for s in stmts if s not in hit)
    tot_s += len(stmts); tot_m += len(missed)
    print(f"{os.path.relpath(full, repo):55s} {len(stmts):5d} stmts {100*(1-len(missed)/max(1,len(stmts))):5.1f}%")
    json.dump(missed, open(os.path.join(cov_dir, "union_missing_" + os.path.basename(full) + ".json"), "w"))
print(f"TOTAL {tot_s} statements, {100*(1-tot_m/max(1,tot_s)):.1f}% reached")
