#!/bin/bash
# tools/soak.sh "<seeds>" "<ids>"  : run quick checks for several seeds, report non-zero exits
HERE="$(cd "$(dirname "$0")/.." && pwd)"
cd "$HERE"
for s in $1; do for p in $2; do
  out=$(VERIF_SEED=$s ./check $p 2>&1); rc=$?
  echo "seed=$s $p rc=$rc $(echo "$out" | tail -1)"
  if [ $rc -ne 0 ]; then echo "$out" | grep -A2 -E "VIOLATION|HARNESS" | head -12 | cut -c1-600; fi
done; done
