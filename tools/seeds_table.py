#!/usr/bin/env python3
"""Prints the markdown table of seeded changes (seeded/*/meta.json);
with --update-design the table between the SEEDS_TABLE markers of DESIGN.md is
replaced."""
import glob
import json
import os
import re
import sys

HERE = os.path.dirname(os.path.dirname(os.path.abspath(__file__)))
rows = []
n_caught = n_all = 0
for f in sorted(glob.glob(os.path.join(HERE, "seeded", "*", "meta.json"))):
    m = json.load(open(f))
    name = os.path.basename(os.path.dirname(f))
    c = m.get("confirmed", {})
    if not m.get("kept"):
        continue
    n_all += 1
    chk = m.get("checked_with") or m.get("property")
    if m.get("caught_by_quick_check"):
        n_caught += 1
        subs = re.findall(r"sub-check: ([^;]+);", c.get("check_violations") or "")
        verdict = f"caught by `./check {chk}`: " + ", ".join(
            f"`{s.strip()}`" for s in subs[:3])
    else:
        verdict = f"**not caught** by `./check {chk}` (quick)"
    txt = lambda s: (s or "").replace("|", "/").replace("\n", " ")
    rows.append(f"| {name} | {', '.join(m.get('files', []))} | "
                f"{txt(m.get('summary'))[:260]} | {txt(m.get('needs'))[:200]} | "
                f"{verdict} |")
table = ["| seed | file(s) | change | needs | quick check on the changed tree |",
         "|---|---|---|---|---|"] + rows + [
    "", f"{n_caught} of {n_all} confirmed seeded changes are caught by the quick "
    "tier of the named check."]
text = "\n".join(table)
if "--update-design" in sys.argv:
    p = os.path.join(HERE, "DESIGN.md")
    s = open(p).read()
    a, b = "<!-- SEEDS_TABLE_BEGIN -->", "<!-- SEEDS_TABLE_END -->"
    i, j = s.index(a) + len(a), s.index(b)
    open(p, "w").write(s[:i] + "\n" + text + "\n" + s[j:])
else:
    print(text)
