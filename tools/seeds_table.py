#!/usr/bin/env python3
"""Prints the markdown table of seeded changes (seeded/*/meta.json)."""
import json, glob, os
HERE = os.path.dirname(os.path.dirname(os.path.abspath(__file__)))
rows = []
for f in sorted(glob.glob(os.path.join(HERE, "seeded", "*", "meta.json"))):
    m = json.load(open(f))
    name = os.path.basename(os.path.dirname(f))
    c = m.get("confirmed", {})
    rows.append((name, m.get("property"), (m.get("summary") or "")[:150].replace("|", "/"),
                 (m.get("needs") or "")[:150].replace("|", "/"),
                 "yes" if m.get("kept") else "NO",
                 ("caught: " + (c.get("check_violations") or "")[:90].replace("|", "/")) if m.get("caught_by_quick_check") else "not caught by quick tier"))
print("| seed | property | change | needs | confirmed (demo fails with / passes without, suite passes) | quick check |")
print("|---|---|---|---|---|---|")
for r in rows:
    print("| " + " | ".join(str(x) for x in r) + " |")
