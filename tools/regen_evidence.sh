#!/bin/bash
# Runs every quick check once against /repo and rewrites evidence/<ID>.json.
HERE="$(cd "$(dirname "$0")/.." && pwd)"; cd "$HERE"
rc_all=0
for k in $(seq -w 1 20); do p=C$k
  out=$(./check $p 2>&1); rc=$?
  echo "$p rc=$rc $(echo "$out" | tail -1)"
  [ $rc -ne 0 ] && { rc_all=1; echo "$out" | grep -A3 -E "VIOLATION|HARNESS" | head -12 | cut -c1-500; }
done
exit $rc_all
