#!/usr/bin/env python3
"""Regenerates MANIFEST.json from the table below (run from /verif)."""
import json, os
HERE = os.path.dirname(os.path.dirname(os.path.abspath(__file__)))
ALL = [f"C{n:02d}" for n in range(1, 21)]
# id -> (technique, level text, level note, design ref)
CHECKS = {}
def add(pid, technique, text, note, ref=None):
    CHECKS[pid] = (technique, text, note, ref or f"DESIGN.md section 3, {pid}")

add("C07", "Hypothesis-generated tensor sums; metamorphic (alpha-variants) + differential value oracle in F_p",
    "Generated-input search: thousands of random sums with constructed alpha-equivalent variants; "
    "value of input and output compared exactly on random tensor models over F_p, term-count and "
    "merge-completeness bounds; history clause: simplify / set_target_idx / simplify on one Expr vs. a freshly built Expr. Exploration, not proof: bounded term size (<=4 objects + fillers, rank<=3+3).",
    "Trusted: F_p tensor evaluator (self-tested against brute-force loops at every run), Hypothesis, sympy constructors.")

add("C06", "Hypothesis-generated index tuples + exhaustive enumeration of a small tuple domain; oracle: brute-force orbit of the declared symmetry group; metamorphic value check for assumptions",
    "Generated-input search against an orbit-enumeration oracle: sampled tuples (ranks <= 3+3, 20-label pool) and an exhaustively enumerated sub-domain "
    "(all tuples over six 4-label pools, ranks <= (2,2), every kind and bra-ket value, all ordered pairs: ~2.5e6 comparisons per run); substitution ordered and simultaneous; assumptions (also on tensors inside unexpanded polynomial factors) checked for "
    "idempotence, locality, re-canonicalisation of every affected tensor and value preservation on F_p models that satisfy them.",
    "Trusted: the orbit enumeration (S_nu x S_nl x Z2 with signs) as specification of 'related by declared symmetry'; F_p evaluator.")
add("C08", "Hypothesis-generated index maps, permutation sequences, renamings and registry histories; oracle: simultaneous reconstruction, documented name sequence, F_p value, identity invariants",
    "Generated-input search: ordered substitution lists vs. simultaneous reconstruction through the public constructors; permute vs. one-by-one transpositions; "
    "substitute_contracted / substitute_with_generic vs. the documented name enumeration, freshness against the history's own record of handed-out names, and value in F_p; "
    "2-12 step histories on a freshly reset registry with identity invariants after every step.",
    "Trusted: rebuild() reconstruction, F_p evaluator; registry reset drops the Singleton instance (harness plumbing, not a source hook).")

add("C09", "Hypothesis-generated delta chains over mixed space/spin indices; differential value oracle on a spin- and space-structured F_p model",
    "Generated-input search: products of tensors/operators with 1-4 constructed delta chains (occ/virt/general x alpha/beta/no spin, mixed in one term), "
    "Einstein and explicit targets; value compared exactly on models where general = occ U virt and no-spin = alpha U beta, so replacing an index by a less "
    "informative one changes the value; free indices must survive, no new index may appear.",
    "Trusted: F_p evaluator with spin structure; operators enter as position-tagged one-index tensors.")
add("C20", "Hypothesis-generated products of an orthogonal two-index tensor; differential value oracle with an exactly orthogonal matrix over F_p (Cayley transform)",
    "Generated-input search: 2-6 U factors incl. powers and constructed resolvable / non-resolvable pairs, remainder tensors (exponents -2..2, optionally on the shared index), Einstein/explicit targets, evaluate_deltas on/off; "
    "value compared exactly on F_p models with U U^T = 1. Out-of-domain class (pairs sharing both indices) and the known finding F8 are excluded by construction and counted.",
    "Trusted: Cayley-transform orthogonal matrices (asserted U U^T = 1 at generation), F_p evaluator.")

add("C16", "Hypothesis-generated terms and limit settings; independent step-by-step interpreter of the returned contraction scheme on an F_p model",
    "Generated-input search: 1-6 tensors/deltas with exponents, traces, outer products, disconnected groups and hyper-contractions, requested target orders, spins and both limits; "
    "every returned scheme is executed by an independent interpreter (leaf bookkeeping, index-summed-exactly-once, not-too-early, single final step, target order, value) and its reported scaling is recomputed.",
    "Trusted: scheme interpreter + F_p evaluator; RuntimeError under explicit limits is a documented refusal. Terms with more than 6 objects are not generated (scheme enumeration is exponential).")

add("C10", "Hypothesis-generated terms/expressions; oracle: reported symmetries re-applied by independent reconstruction and valued in F_p, exploit_perm_sym parts re-expanded by axis swaps, independent re-implementation of the documented sort keys",
    "Generated-input search in four sub-domains: (a) every reported entry of Term/Obj.symmetry must hold in value on 2 models; (b) exploit_perm_sym on constructed (1 +- P)(1 +- P')T expressions (optionally with one term split into two renamed copies, i.e. not fully simplified input) with generated target strings, "
    "bra-ket symmetry and result-tensor kind must reproduce the value; (c) the five sort functions and filter_tensor must be lossless and key-correct; (d) sequences of symmetry requests (products of 1-3 transpositions incl. cyclic products and the reversed product) on one LazyTermMap: every reported entry i -> j must satisfy P term_i = factor term_j in value.",
    "Trusted: rebuild(), F_p evaluator, own key implementation. Terms whose symmetry enumeration is factorial (> 5 index occurrences per class) are not generated.")
add("C13", "Hypothesis-generated orbital-energy fractions, sums and Fock terms; differential value oracle on F_p models with random orbital energies (D := reciprocal bracket, f := diag(e) / block diagonal)",
    "Generated-input search: split/rebuild, sign canonicalisation, numerator symmetrisation, fraction cancellation, symbolic<->explicit denominators (both directions), grouping functions, Fock (block-)diagonalisation; "
    "exact comparison in F_p with model resampling on vanishing denominators; documented refusals counted.",
    "Trusted: F_p evaluator incl. brackets under negative powers; refusals = NotImplementedError/Inputerror/RuntimeError('Ambiguous signs')/TypeError('Invalid bracket') raised by the library's own validation.")
add("C14", "Hypothesis-generated expressions with a designated tensor; oracle: exact re-contraction with canonical block tensors and orbit-derived weights; derivative vs. exactly interpolated first-order change in F_p",
    "Generated-input search: remove_tensor blocks re-contracted with independently built block tensors (documented minimal index names, weight (2 if bra-ket)/|G| or 1/sqrt|G| for ADC amplitudes) must restore the value and carry the block symmetry; "
    "derivative blocks contracted with a random variation must equal the linear coefficient of s -> E(T + s dT).",
    "Trusted: F_p evaluator, documented naming rule for block indices; out-of-domain classes (different blocks in one term, Einstein-ambiguous block expressions) are excluded and counted.")

add("C17", "Hypothesis-generated expressions and generate_code settings; the emitted program text is parsed and executed by an independent einsum/libtensor interpreter on an F_p model (translation validation by differential execution)",
    "Generated-input search: terms with identical free indices incl. traces, outer products, nested and hyper-contractions, constructed (1 +- P) symmetrisations, target strings with/without ',' and spin, "
    "bra-ket symmetry, result-tensor kind, both backends, optimised/unoptimised, limits, symbol prefactors incl. powers and divisions by a symbol (refusal or correct code); program value (prefactors, block names, index strings, nesting, permutation operators) == value of the expression.",
    "Trusted: the dialect interpreters (self-tested on hand-written programs at every run), F_p evaluator. Refusals: NotImplementedError, Inputerror, RuntimeError under explicit limits.")
add("C18", "Hypothesis-generated printable expressions + a pool of real derivation/transformation outputs; round-trip oracle (print -> import -> re-assume) with value in F_p, tensor kinds and re-printed text",
    "Generated-input search: every printable object kind incl. operators, NO groups, spins, numbered names, fractions with bracket powers, sqrt/rational prefactors under generated assumptions; plus 26 library outputs x 4 post-processings per run.",
    "Trusted: F_p evaluator (operators as position-tagged tensors). The atheris campaign planned in DESIGN.md was not built (see DESIGN.md section 5).")

add("C01", "Hypothesis-generated operator products; oracle: Fermi-vacuum expectation value by bit-string (determinant) algebra with literal normal ordering, contracted with tensor values in F_p",
    "Generated-input search: 2-8 operators on occ/virt/general indices, NO groups, coefficient tensors wired to operator indices, rule sets; for every orbital assignment of the operator indices the vacuum expectation value "
    "is computed without Wick's theorem and compared with the evaluated wicks() result with and without delta evaluation on 4-5 model sizes; rules checked structurally against an independent block computation.",
    "Trusted: fock.py (anticommutation relations self-tested at every run), F_p evaluator. Strings with more than 6 distinct operator labels are not generated.")

add("C15", "Hypothesis-generated spin-orbital expressions and target spin strings; differential value oracle on one spin-structured F_p model (spin-conserving Coulomb integrals, antisymmetrised V, spin-conserving amplitudes)",
    "Generated-input search: integrate_spin / transform_to_spatial_orbitals (expand_eri on/off, restricted on/off) for sampled target spin blocks and generated target orders; value of the output on spatial orbitals == value of the "
    "input on the spin orbitals of the requested spins; restricted case on models whose tensors depend on spatial labels only; non-reported blocks of allowed_spin_blocks must vanish. Also terms with explicit targets that carry a polynomial factor "
    "(orbital energies and integrals on the target indices to the power -2..2, e.g. an Epstein-Nesbet like denominator).",
    "Trusted: spin-structured F_p model (V built from (pq|rs) with spin conservation; symmetry asserted in the self test). Tensors without known spin blocks are modelled with all blocks non-zero.")

add("C02", "Hypothesis-drawn derivation requests and model Hamiltonians; reference model = Rayleigh-Schroedinger PT by explicit linear algebra in determinant space over F_p",
    "Generated-input search: energies, closed-form MP amplitudes (generated index names), RE residuals and 1-/2-particle expectation values for mp/re, with/without first-order singles, canonical and non-canonical Fock matrices on 4 model sizes; "
    "every derived expression is evaluated on the model (amplitudes := RSPT wavefunction coefficients) and compared exactly with the RSPT value for every index assignment.",
    "Trusted: fock.py + rspt.py (self test: (H0 + lambda H1) Psi = E Psi order by order, anticommutators). Orders <= 3 (quick) / 4 (thorough).")

add("C03", "Hypothesis-drawn secular-matrix requests and model Hamiltonians; reference model = explicit intermediate-state construction (RSPT, Gram-Schmidt, S^-1/2 matrix power series) in determinant space over F_p",
    "Generated-input search: isr_matrix_block / precursor_matrix_block / mvp_block_order for pp, ip, ea, dip, dea, diagonal and coupling blocks of the two lowest classes, orders <= 2 (3 for the lowest class in the thorough tier), subtract_gs on/off, "
    "generated index names, 4 model sizes, canonical and non-canonical Fock matrices; every element for every bra/ket assignment compared exactly; transpose relation between independently derived blocks; block_order vs. the ADC(n) rule; mvp / expectation_value (block-wise and summed over the ADC(n) blocks) vs. M Y and X^T M Y; one fixed third-order coupling block (phh,h).",
    "Trusted: fock.py, rspt.py, isr.py (self test: orthonormality of the explicit states order by order, M symmetric). Expensive blocks are capped in order (see N/caps in c03.py).")
add("C04", "Hypothesis-drawn overlap requests evaluated on random amplitude tensors; oracle: antisymmetrised delta product from bit-string algebra at zeroth order, zero array otherwise; symmetry of the precursor overlap",
    "Generated-input search: overlap_isr for all five variants, class pairs, orders <= 2 (3), mp/re, with/without first-order singles (objects of all configurations live in one process and receive the same canonical request strings), generated index names, complex-conjugate amplitudes aliased or independent; "
    "the (unsimplified) derived overlap must cancel numerically for arbitrary amplitude values.",
    "Trusted: F_p evaluator, fock.vev. No Hamiltonian is involved: the identity is algebraic in the amplitudes.")

add("C05", "Hypothesis-drawn property/transition-moment requests and model Hamiltonians; reference model = explicit matrix elements between explicitly built intermediate states / the normalised perturbed ground state in determinant space over F_p",
    "Generated-input search: expec_block_contribution and trans_moment_space for all five variants incl. mixed left/right pairs, spaces of the two lowest classes, operator strings (n_create, n_annihilate) in {0,1,2}^2 (also particle-number changing), "
    "orders <= 2, subtract_gs on/off; random operator matrix and random normalised amplitude vectors with the documented 1/sqrt(n_o! n_v!) convention.",
    "Trusted: fock.py, rspt.py, isr.py (orthonormality self test). Expensive blocks are capped in order.")

add("C12", "Hypothesis-drawn (intermediate, index tuple, expansion depth, model) requests; reference model = RSPT wavefunction coefficients / density series / derived residuals; metamorphic consistency for composite intermediates; symmetry and spin-block clauses by exhaustive block enumeration on the model",
    "Generated-input search over all 25 registered intermediates with generated admissible index names and orders: MP amplitudes (orders 1-3, singles..quadruples) vs. explicit RSPT for every index assignment, density blocks vs. the explicit density series, "
    "RE residuals vs. the derived residual on off-shell models, t2eri_*/t2sq consistency; declared tensor symmetry and vanishing of all non-allowed spin blocks are checked on the evaluated definitions.",
    "Trusted: rspt.py, fock.py, spin-structured model of C15. Composite integral-amplitude intermediates have no independent specification offline (consistency + declared symmetry only).")

add("C11", "Hypothesis-generated real-basis expressions with registered intermediate tensors and generated expand/reduce/factor requests; differential value oracle on a canonical-HF F_p model in which every intermediate tensor takes the value of its registered definition",
    "Generated-input search: expand_intermediates (fully/once), reduce_expr and factor_intermediates (generated subsets/orders of types and names, max_order) applied to expanded or reduced forms; the value on the model must be unchanged, "
    "hence factor(expand(x)) == x in value independent of the requested subset/order.",
    "Trusted: rspt.py amplitudes/densities (validated against the definitions by C12), definitions of composite intermediates evaluated once per model. Few cases per run (factorisation takes seconds per case).")

add("C19", "Hypothesis-drawn (request, call history, PYTHONHASHSEED, tensor-name configuration) tuples executed in fresh interpreters; differential oracle against the same request with empty history / hash seed 0 / default names (text and F_p value fingerprints)",
    "Generated-input search over histories of derivation and index requests, five hash seeds and generated tensor_names.json configurations (scratch copy of the package); result text after expand + substitute_contracted (+ simplify), term count and value "
    "fingerprints on two fixed models must be identical; wavefunctions / norm factors requested twice must not share contracted indices.",
    "Trusted: subprocess isolation, F_p evaluator, rebuild_names(). ~1-10 s per tuple: tens of tuples per quick run, hundreds in the thorough tier; thread schedules are irrelevant (single-threaded library).")

NOT_YET = "check not built yet in this round (planned, see DESIGN.md)"

def main():
    checks = []
    for pid in ALL:
        if pid not in CHECKS:
            continue
        tech, text, note, ref = CHECKS[pid]
        checks.append({
            "property_id": pid,
            "quick_cmd": f"./check {pid} --tier quick",
            "thorough_cmd": f"./check {pid} --tier thorough",
            "evidence_file": f"evidence/{pid}.json",
            "replay_cmd_template": f"./check {pid} --replay {{path}}",
            "engine": "vf",
            "level_claimed": {"category": "exploration", "text": text, "design_ref": ref},
            "level_note": note,
            "technique": tech,
        })
    man = {
        "version": 1,
        "setup_cmd": "./setup.sh",
        "hooks": {
            "guard": "ADCGEN_VERIF",
            "enable": "no source hooks are needed: every observation point is public API; ./check exports ADCGEN_VERIF=1 for completeness",
            "baseline_off_cmd": "cd /repo && /venv/bin/python -m pytest -ra -q -p no:cacheprovider --timeout=900 --continue-on-collection-errors",
            "source_commits": [],
            "add_only": True,
        },
        "engines": [{
            "name": "vf", "path": "vf/",
            "serves_properties": sorted(CHECKS),
            "kind_free_text": "property-based testing: Hypothesis strategies over JSON case descriptions, oracles = exact F_p tensor model / Fock-space linear algebra / independent interpreters; 16 seeded shards per check",
        }],
        "checks": checks,
        "not_applicable": [{"property_id": p, "reason": NOT_YET} for p in ALL if p not in CHECKS],
        "notes": "Run ./check <ID> [--tier quick|thorough] [--replay file]; VERIF_SEED selects the Hypothesis seeds (seed*1000+shard).",
    }
    with open(os.path.join(HERE, "MANIFEST.json"), "w") as fh:
        json.dump(man, fh, indent=1)
if __name__ == "__main__":
    main()
