"""C06 - tensor objects identify exactly the index tuples related by the
declared symmetry; assumptions only re-canonicalise."""
import itertools
from collections import Counter

from hypothesis import strategies as st
from sympy import S, Add, Mul, Pow

from adcgen import Expr
from adcgen.indices import order_substitutions
from adcgen.sympy_objects import (AntiSymmetricTensor, SymmetricTensor,
                                  Amplitude, NonSymmetricTensor,
                                  KroneckerDelta, SymbolicTensor)

from ..gen import (Cfg, st_expr_case, build_term, sym, syms, label_class,
                   parse_label, BadCase, sort_labels)
from ..model import Model, evaluate, perm_sign, idx_key
from ..runner import R, drive, lib_call
from .. import common

ID = "C06"
RULE = ("(a) Hypothesis: tensor kind x ranks (0..3)^2 x bra-ket symmetry x "
        "index tuples over a 10-label pool mixing spaces/spins/numbered "
        "names, a related tuple (random group element) and an arbitrary "
        "second tuple; oracle: brute-force orbit of the declared symmetry "
        "group (S_nu x S_nl x Z2) with signs. (b) exhaustive sub-domain: all "
        "tuples over 4-label pools, ranks <= (2,2), all kinds, all bra-ket "
        "values, all ordered pairs (X,Y). (c) Hypothesis expressions with "
        "generated real / sym_tensors / antisym_tensors assumptions: "
        "idempotence, only affected tensors change, value unchanged in "
        "models having the assumed symmetry. Non-trivial: >= 3 distinct "
        "indices, or a bra-ket swap, or mixed spaces/spins/numbered names "
        "(a,b); an assumption that changes at least one object (c).")
BUDGET = {"quick": 90, "thorough": 1500}
N_EXAMPLES = {"quick": 2000, "thorough": 30000}
ASSUMPTIONS = ["orbit enumeration is the specification of 'related by the "
               "declared symmetry'", "F_p tensor model for the value clause"]

KINDS = {"A": AntiSymmetricTensor, "S": SymmetricTensor, "T": Amplitude}
POOL = ["i", "j", "k", "i1", "i12", "j2", "a", "b", "a3", "p", "q", "p2",
        "i:a", "i:b", "j:a", "a:a", "a:b", "b1:b", "p:a", "q:b"]


def make(kind, name, upper, lower, bk):
    if kind == "N":
        return NonSymmetricTensor(name, syms(upper + lower))
    return KINDS[kind](name, syms(upper), syms(lower), bk)


def orbit(kind, upper, lower, bk):
    """{(upper', lower'): set of signs} under the declared symmetry group"""
    res = {}
    if kind == "N":
        return {(tuple(upper), tuple(lower)): {1}}
    nu, nl = len(upper), len(lower)
    anti = kind in ("A", "T")
    for pu in itertools.permutations(range(nu)):
        for pl in itertools.permutations(range(nl)):
            s = perm_sign(pu) * perm_sign(pl) if anti else 1
            u2 = tuple(upper[k] for k in pu)
            l2 = tuple(lower[k] for k in pl)
            res.setdefault((u2, l2), set()).add(s)
            if bk and nu == nl:
                res.setdefault((l2, u2), set()).add(s * bk)
    return res


def forced_zero(kind, upper, lower):
    if kind not in ("A", "T"):
        return False
    return len(set(upper)) < len(upper) or len(set(lower)) < len(lower)


def check_pair(r, kind, name, bk, X, Y, tag=""):
    """X, Y = (upper, lower) label tuples. Compare library identification
    with the orbit oracle. Returns True if nontrivial."""
    ux, lx = X
    uy, ly = Y
    tx = make(kind, name, list(ux), list(lx), bk)
    ty = make(kind, name, list(uy), list(ly), bk)
    zx, zy = forced_zero(kind, ux, lx), forced_zero(kind, uy, ly)
    for t, z, Z in ((tx, zx, X), (ty, zy, Y)):
        if z and t is not S.Zero:
            r.fail("zero" + tag, f"{kind} bk={bk} {Z}: symmetry forces zero "
                   f"but got {t}")
            return
        if not z and t is S.Zero:
            r.fail("spurious_zero" + tag, f"{kind} bk={bk} {Z} constructed "
                   "as zero although no antisymmetric group repeats an index")
            return
    if zx or zy:
        return
    orb = orbit(kind, ux, lx, bk)
    signs = orb.get((tuple(uy), tuple(ly)))
    if signs is None:   # unrelated: must not be identified
        if tx == ty or tx == -ty:
            r.fail("identified_unrelated" + tag,
                   f"{kind} bk={bk}: {X} and {Y} are not related by the "
                   f"declared symmetry but {tx} == +-{ty}")
    elif len(signs) == 2:
        # bra-ket antisymmetric 'diagonal' element: the statement does not
        # demand zero; only demand identification up to sign
        if not (tx == ty or tx == -ty):
            r.fail("related_not_identified" + tag,
                   f"{kind} bk={bk}: {X} ~ {Y} but {tx} != +-{ty}")
    else:
        s = next(iter(signs))
        if tx != s * ty:
            r.fail("related_wrong" + tag,
                   f"{kind} bk={bk}: {X} = {s:+d} * {Y} by symmetry but "
                   f"library gives {tx} vs {ty}")


# ------------------------------------------------------------ (a) sampled
@st.composite
def st_tuple_case(draw):
    kind = draw(st.sampled_from(["A", "A", "S", "T", "N", "K"]))
    if kind == "K":
        x, y = draw(st.sampled_from(POOL)), draw(st.sampled_from(POOL))
        return {"sub": "delta", "x": x, "y": y}
    nu = draw(st.integers(0, 3))
    nl = draw(st.integers(0, 3))
    if nu + nl == 0:
        nu = 1
    bk = draw(st.sampled_from([0, 1, -1])) if nu == nl and kind != "N" else 0
    spin_pool = draw(st.sampled_from(["nospin", "nospin", "mixed", "spin"]))
    pool = [l for l in POOL if
            (spin_pool == "mixed") or ((":" in l) == (spin_pool == "spin"))]
    npool = draw(st.integers(2, min(8, len(pool))))
    pool = list(draw(st.permutations(pool)))[:npool]
    if draw(st.integers(0, 2)) == 0 or len(pool) < nu + nl:
        X = [draw(st.sampled_from(pool)) for _ in range(nu + nl)]
    else:   # distinct indices
        X = list(draw(st.permutations(pool)))[:nu + nl]
    pu = list(draw(st.permutations(range(nu))))
    pl = list(draw(st.permutations(range(nl))))
    swap = bool(bk) and draw(st.booleans())
    Z = [draw(st.sampled_from(pool)) for _ in range(nu + nl)]
    if draw(st.booleans()):   # near miss: X with one label replaced/moved
        Z = list(X)
        k = draw(st.integers(0, nu + nl - 1))
        Z[k] = draw(st.sampled_from(pool))
        if draw(st.booleans()):
            Z = list(draw(st.permutations(Z)))
    # substitution map over the pool
    keys = list(draw(st.permutations(pool)))[:draw(st.integers(1, len(pool)))]
    smap = {}
    for kx in keys:
        c = label_class(kx)
        cands = [l for l in pool if label_class(l) == c]
        smap[kx] = draw(st.sampled_from(cands))
    return {"sub": "tuple", "kind": kind, "nu": nu, "nl": nl, "bk": bk,
            "X": X, "pu": pu, "pl": pl, "swap": swap, "Z": Z, "smap": smap}


def run_tuple(case, r):
    if case["sub"] == "delta":
        x, y = case["x"], case["y"]
        d = KroneckerDelta(sym(x), sym(y))
        (sx, px), (sy, py) = label_class(x), label_class(y)
        r.sample = f"delta({x},{y}) = {d}"
        zero = (sx != sy and "general" not in (sx, sy)) or \
            (px and py and px != py)
        if parse_label(x) == parse_label(y) and px == py:
            if d is not S.One:
                r.fail("delta_same", f"delta({x},{y}) = {d}")
        elif zero:
            if d is not S.Zero:
                r.fail("delta_zero", f"delta({x},{y}) = {d} must vanish")
        else:
            if d is S.Zero or d is S.One:
                r.fail("delta_spurious", f"delta({x},{y}) = {d}")
            elif d != KroneckerDelta(sym(y), sym(x)):
                r.fail("delta_sym", f"delta({x},{y}) != delta({y},{x})")
            elif set(d.args) != {sym(x), sym(y)}:
                r.fail("delta_args", f"delta({x},{y}) = {d}")
        r.nontrivial = (sx != sy) or (px != py) or x[1:2].isdigit()
        r.cls("delta")
        return
    kind, nu, nl, bk = case["kind"], case["nu"], case["nl"], case["bk"]
    X = case["X"]
    if len(X) != nu + nl or len(case["Z"]) != nu + nl:
        raise BadCase("tuple length")
    ux, lx = tuple(X[:nu]), tuple(X[nu:])
    uy = tuple(ux[k] for k in case["pu"]) if len(case["pu"]) == nu else ux
    ly = tuple(lx[k] for k in case["pl"]) if len(case["pl"]) == nl else lx
    if case["swap"] and nu == nl and bk:
        uy, ly = ly, uy
    Z = case["Z"]
    uz, lz = tuple(Z[:nu]), tuple(Z[nu:])
    r.sample = f"{kind}(bk={bk}) X={ux}|{lx} related Y={uy}|{ly} other Z={uz}|{lz}"
    check_pair(r, kind, "T", bk, (ux, lx), (uy, ly), "")
    check_pair(r, kind, "T", bk, (ux, lx), (uz, lz), "")
    # substitution into the constructed object
    tx = make(kind, "T", list(ux), list(lx), bk)
    smap = {k: v for k, v in case["smap"].items()}
    if tx is not S.Zero:
        sub = order_substitutions({sym(k): sym(v) for k, v in smap.items()})
        got = tx.subs(sub)
        exp = make(kind, "T", [smap.get(x, x) for x in ux],
                   [smap.get(x, x) for x in lx], bk)
        # sign/identity must agree; both construction paths canonicalise.
        # (bra-ket antisymmetric 'diagonal' elements T^{x}_{x} are only
        # defined up to their sign, see check_pair)
        mu = [smap.get(x, x) for x in ux]
        ml = [smap.get(x, x) for x in lx]
        o_ = orbit(kind, tuple(mu), tuple(ml), bk).get((tuple(mu), tuple(ml)))
        if o_ is not None and len(o_) == 2 and got == -exp:
            pass
        elif got != exp:
            # related-by-symmetry results are fine only if identical objects
            r.fail("subs", f"{tx}.subs({sub}) = {got}, direct construction "
                   f"gives {exp}")
        # the same map applied at once (sympy's simultaneous=True, used by
        # the library itself for the density intermediates)
        smap_s = {sym(k): sym(v) for k, v in smap.items()}
        got_s = tx.subs(smap_s, simultaneous=True)
        if o_ is not None and len(o_) == 2 and got_s == -exp:
            pass
        elif got_s != exp:
            r.fail("subs_simultaneous", f"{tx}.subs({smap_s}, simultaneous="
                   f"True) = {got_s}, direct construction gives {exp}")
    distinct = len(set(X))
    classes = {label_class(x) for x in X}
    numbered = any(parse_label(x)[0][1:] for x in X)
    r.nontrivial = distinct >= 3 or case["swap"] or len(classes) > 1 or numbered
    r.cls(f"kind={kind}", f"bk={bk}", f"rank={nu},{nl}")
    if len(classes) > 1:
        r.cls("mixed_classes")
    if numbered:
        r.cls("numbered")
    if distinct < len(X):
        r.cls("repeated_index")


# ------------------------------------------------------- (c) assumptions
CFG = Cfg(max_obj=4, max_terms=3, max_target=3, allow_hyper=False,
          names=["V", "f", "d", "A", "t1", "t2", "t1cc", "t2cc", "X", "R",
                 "x", "z", "delta", "y"])


@st.composite
def st_assume_case(draw):
    base = draw(st_expr_case(CFG))
    real = draw(st.booleans())
    names = {}
    for t in base["terms"]:
        for o in t["objs"]:
            if o["k"] in ("A", "S", "T") and not o["name"].startswith("t"):
                sq = len(o["u"]) == len(o["l"])
                names[o["name"]] = names.get(o["name"], True) and sq
    cands = sorted(n for n, ok in names.items() if ok)
    sym_t, antisym_t = [], []
    for n in cands:
        x = draw(st.integers(0, 3))
        if x == 0:
            sym_t.append(n)
        elif x == 1 and not (real and n in ("f", "V")):
            antisym_t.append(n)
    return {"sub": "assume", "terms": base["terms"],
            "targets": base["targets"], "explicit": base["explicit"],
            "spin": base["spin"], "real": real, "sym_tensors": sym_t,
            "antisym_tensors": antisym_t,
            "poly": draw(st.sampled_from([0, 0, 1, 1, 2])),
            "mseed": draw(st.integers(0, 2**31))}


def tensor_multiset(expr, real):
    out = Counter()
    for t in S(expr).atoms(SymbolicTensor):
        name = t.name
        if real and name.startswith("t") and name.endswith("cc"):
            name = name.replace("c", "")
        out[(name, type(t).__name__,
             tuple(sorted(str(i) for i in t.idx)))] += 0  # presence only
    return set(out)


def run_assume(case, r):
    raw = S.Zero
    poly = int(case.get("poly") or 0)
    if poly and len(case["terms"]) >= 2:
        # first term times an *unexpanded* sum of the other terms (to a
        # power): tensors that only occur inside a polynomial factor
        if poly not in (1, 2):
            raise BadCase("polynomial power")
        raw = build_term(case["terms"][0]) * Pow(
            Add(*[build_term(t) for t in case["terms"][1:]]), poly)
    else:
        poly = 0
        for t in case["terms"]:
            raw += build_term(t)
    targets = tuple(sorted(syms(case["targets"]), key=idx_key))
    kw = dict(real=case["real"], sym_tensors=case["sym_tensors"] or None,
              antisym_tensors=case["antisym_tensors"] or None)
    if case["explicit"] or poly:
        kw["target_idx"] = list(targets)
    ok, e1 = lib_call(r, "assume", Expr, raw, **kw)
    if not ok:
        return
    r.sample = f"Expr({raw}, real={case['real']}, sym={case['sym_tensors']}, antisym={case['antisym_tensors']}) -> {e1}"
    # idempotent
    ok, e2 = lib_call(r, "assume_again", Expr, e1.sympy, **kw)
    if ok and e2.sympy != e1.sympy:
        r.fail("not_idempotent", f"{e1} -> {e2}")
    if ok and e2.assumptions != e1.assumptions:
        r.fail("assumptions_not_stable", f"{e1.assumptions} {e2.assumptions}")
    # make_real / set_sym_tensors applied stepwise gives the same object
    ok, e3 = lib_call(r, "assume_stepwise", lambda: _stepwise(raw, case, kw))
    if ok and e3.sympy != e1.sympy:
        r.fail("stepwise_differs", f"constructor: {e1}; stepwise: {e3}")
    # only affected tensors change (term by term: terms may cancel once the
    # declared symmetry is known)
    affected = set(case["sym_tensors"]) | set(case["antisym_tensors"])
    if case["real"]:
        affected |= {"f", "V"}
    kw_t = {k: v for k, v in kw.items() if k != "target_idx"}
    for t in Add.make_args(S(raw)):
        ok_t, et = lib_call(r, "assume_term", Expr, t, **kw_t)
        if not ok_t or et.sympy == 0:
            continue
        if tensor_multiset(t, case["real"]) != tensor_multiset(et.sympy, False):
            a, b = tensor_multiset(t, case["real"]), \
                tensor_multiset(et.sympy, False)
            r.fail("tensors_changed", f"{t} -> {et}: {sorted(a - b)} vs "
                   f"{sorted(b - a)}")
            break
        stop = False
        for x in S(t).atoms(SymbolicTensor):
            if x.name not in affected and \
                    not (case["real"] and "cc" in x.name):
                if x not in et.sympy.atoms(SymbolicTensor):
                    r.fail("unaffected_tensor_changed", f"{x} in {t} -> {et}")
                    stop = True
                    break
        if stop:
            break
    # every affected tensor of the result (also inside polynomial factors)
    # carries the declared bra-ket symmetry, i.e. has been re-canonicalised
    want = {n: 1 for n in case["sym_tensors"]}
    want.update({n: -1 for n in case["antisym_tensors"]})
    if case["real"]:
        want.update({"f": 1, "V": 1})
    for x in S(e1.sympy).atoms(SymbolicTensor):
        bks = getattr(x, "bra_ket_sym", None)
        if x.name in want and bks is not None and \
                len(x.upper) == len(x.lower) and int(bks) != want[x.name]:
            r.fail("not_recanonicalised", f"{x} in {e1} has bra_ket_sym "
                   f"{bks}, declared {want[x.name]} ({kw})")
            break
    # value in a model that satisfies the assumptions
    sizes = [(1, 1)] if case["spin"] else [(2, 2), (3, 2)]
    for k, (no, nv) in enumerate(sizes):
        m = Model(case["mseed"] + k, no, nv, spin=case["spin"])
        for n in case["sym_tensors"]:
            m.bk[n] = 1
        for n in case["antisym_tensors"]:
            m.bk[n] = -1
        if case["real"]:
            m.bk["f"] = m.bk["V"] = 1
            m.alias.update({"t1cc": "t1", "t2cc": "t2"})
        v0 = evaluate(m, raw, targets)
        v1 = evaluate(m, e1.sympy, targets)
        if not (v0 == v1).all():
            r.fail("value", f"{raw} -> {e1} under {kw}")
            break
    r.nontrivial = S(raw) != e1.sympy
    r.cls("assume", f"real={case['real']}")
    if poly:
        r.cls("assume_polynomial_factor")
    if case["sym_tensors"] or case["antisym_tensors"]:
        r.cls("braket_declared")


def _stepwise(raw, case, kw):
    e = Expr(raw, target_idx=kw.get("target_idx"))
    if case["sym_tensors"]:
        e.set_sym_tensors(case["sym_tensors"])
    if case["antisym_tensors"]:
        e.set_antisym_tensors(case["antisym_tensors"])
    if case["real"]:
        e.make_real()
    return e


# ---------------------------------------------------------------- driver
def run_case(case):
    r = R()
    if case["sub"] == "assume":
        run_assume(case, r)
    elif case["sub"] == "exhaustive":
        run_exhaustive(case, r)
    else:
        run_tuple(case, r)
    return r


EX_POOLS = [["i", "j", "a", "b"], ["i", "i1", "j2", "p"],
            ["i:a", "i:b", "j:a", "a:a"], ["i", "i:a", "a", "p:b"],
            ["k", "j12", "j2", "q"], ["a", "b:a", "b:b", "p"]]
EX_RANKS = [(1, 1), (2, 0), (0, 2), (2, 1), (1, 2), (2, 2)]


def exhaustive_configs():
    cfgs = []
    for pool_i in range(len(EX_POOLS)):
        for kind in ("A", "S", "T", "N"):
            for nu, nl in EX_RANKS:
                bks = [0, 1, -1] if nu == nl and kind != "N" else [0]
                for bk in bks:
                    cfgs.append({"sub": "exhaustive", "pool": pool_i,
                                 "kind": kind, "nu": nu, "nl": nl, "bk": bk})
    return cfgs


def run_exhaustive(case, r):
    pool = EX_POOLS[case["pool"]]
    kind, nu, nl, bk = case["kind"], case["nu"], case["nl"], case["bk"]
    tuples = list(itertools.product(pool, repeat=nu + nl))
    objs = {}
    orbs = {}
    for X in tuples:
        ux, lx = X[:nu], X[nu:]
        objs[X] = make(kind, "T", list(ux), list(lx), bk)
        z = forced_zero(kind, ux, lx)
        if z != (objs[X] is S.Zero):
            r.fail("zero/exhaustive", f"{kind} bk={bk} {ux}|{lx}: forced zero="
                   f"{z}, got {objs[X]}")
        if not z:
            orbs[X] = {u + lo: s for (u, lo), s in
                       orbit(kind, ux, lx, bk).items()}
    npairs = 0
    neg = {X: -o for X, o in objs.items()}
    for X, orb in orbs.items():
        tx = objs[X]
        for Y in orbs:
            npairs += 1
            ty = objs[Y]
            signs = orb.get(Y)
            if signs is None:
                if tx == ty or tx == neg[Y]:
                    r.fail("identified_unrelated/exhaustive",
                           f"{kind} bk={bk} ranks {nu},{nl}: {X} and {Y}")
                    return
            elif len(signs) == 2:
                if not (tx == ty or tx == neg[Y]):
                    r.fail("related_not_identified/exhaustive",
                           f"{kind} bk={bk} ranks {nu},{nl}: {X} and {Y}")
                    return
            else:
                s = next(iter(signs))
                if tx != (ty if s == 1 else neg[Y]):
                    r.fail("related_wrong/exhaustive",
                           f"{kind} bk={bk} ranks {nu},{nl}: {X} = {s:+d} {Y}"
                           f" but library: {tx} vs {ty}")
                    return
    r.extra_evals = npairs
    r.nontrivial = True
    r.cls("exhaustive_config")
    r.sample = (f"exhaustive: pool {pool} kind {kind} ranks ({nu},{nl}) "
                f"bk={bk}: {len(tuples)} tuples, {npairs} ordered pairs")


def strategy(tier):
    return st.one_of(st_tuple_case(), st_tuple_case(), st_assume_case())


def run_shard(col, shard, nshards, seed, tier):
    cfgs = exhaustive_configs()
    mine = cfgs[shard::nshards]
    done = 0
    for c in mine:
        if col.run(c, run_case) is not None:
            done += 1
    drive(strategy(tier), run_case, N_EXAMPLES[tier], seed * 1000 + shard,
          col)
    return {"exhaustive_configs_total": len(cfgs) if shard == 0 else 0,
            "exhaustive_configs_done": done}


def finish(cov):
    ex = cov.get("extra", {})
    cov["exhaustive"] = False
    cov["exhaustive_subdomain"] = {
        "description": "all tuples over each 4-label pool, ranks <= (2,2), "
                       "kinds A/S/T/N, bra-ket 0/+1/-1, all ordered pairs",
        "configs_total": ex.get("exhaustive_configs_total"),
        "configs_done": ex.get("exhaustive_configs_done"),
        "complete": ex.get("exhaustive_configs_total") ==
        ex.get("exhaustive_configs_done"),
    }


def self_test():
    common.self_test_model()
    o = orbit("A", ("i", "j"), ("a", "b"), 1)
    assert o[(("j", "i"), ("a", "b"))] == {-1}
    assert o[(("a", "b"), ("i", "j"))] == {1}
    assert len(o) == 8
