"""C17 - generated contraction code evaluates to the expression it came
from."""
from hypothesis import strategies as st
from sympy import S, Add, Mul

from adcgen import Expr, generate_code
from adcgen.misc import Inputerror
from adcgen.indices import Index
from adcgen.sympy_objects import SymbolicTensor, KroneckerDelta

from ..gen import (Cfg, st_expr_case, build_term, syms, label_class,
                   parse_label, term_label_count, BadCase)
from ..model import Model, evaluate, idx_key, P
from ..codeinterp import Interp, run_program, CodeError
from ..interp import term_leaves
from ..runner import R, drive, lib_call
from .. import common

ID = "C17"
RULE = ("Hypothesis: expressions of 1-3 terms with identical free indices "
        "(single tensors, pure numbers, traces, outer products, nested "
        "contractions, hyper-contractions, deltas, Symbols, rational and "
        "sqrt prefactors), target strings in generated order with/without "
        "',' and spin, bra-ket symmetry 0/+-1, (anti)symmetric result tensor, "
        "both backends, optimised or not, both limits; the emitted text is "
        "parsed and executed by an independent interpreter (einsum / "
        "libtensor dialect, 'Apply (1 +- P..)' operators as axis swaps) on an "
        "F_p model and must equal the value of the expression in the "
        "requested target order. Documented refusals (NotImplementedError, "
        "Inputerror, RuntimeError under limits) are counted. Non-trivial: "
        ">= 1 einsum/contract call or a non-trivial permutation header.")
BUDGET = {"quick": 100, "thorough": 1500}
N_EXAMPLES = {"quick": 350, "thorough": 8000}
ASSUMPTIONS = ["index names are single tokens letter+digits; expressions in "
               "which two different indices share a name (alpha/beta) are "
               "excluded: the library documents (warning) that such code is "
               "ambiguous"]

CFG = Cfg(min_obj=1, max_obj=4, max_terms=3, max_target=4, max_exp=2,
          allow_hyper=True, allow_explicit=False, allow_general=True,
          allow_sqrt=False, allow_numbered=False, symbol_powers=True,
          spin_modes=[False, False, False, False, True], max_slots=10,
          names=["V", "f", "A", "B", "C", "t1", "t2", "X", "Y", "R", "v",
                 "x", "y", "z", "w", "delta"])


@st.composite
def st_case(draw):
    cfg = Cfg(**CFG.__dict__)
    # one ADC variant per expression: a single rank for each amplitude name
    from ..gen import CAT_BY_NAME
    cfg.rank_override = {
        "X": [draw(st.sampled_from([(1, 1), (2, 2), (2, 1), (1, 2)]))],
        "Y": [draw(st.sampled_from([(1, 1), (2, 2), (1, 0), (0, 1)]))]}
    # a block name (<name>_<space>) does not encode the upper/lower split:
    # one rank per tensor name and expression, as in every real use
    for nm in ("A", "B", "C", "R", "t2"):
        cfg.rank_override[nm] = [draw(st.sampled_from(CAT_BY_NAME[nm][2]))]
    base = draw(st_expr_case(cfg))
    if draw(st.integers(0, 11)) == 0:   # refused: sqrt prefactor
        base["terms"][0]["sqrt"] = draw(st.sampled_from([2, 3, 6]))
    tg = list(base["targets"])
    order = list(draw(st.permutations(tg)))
    cut = draw(st.integers(0, len(order)))
    comma = draw(st.booleans())
    bk = 0
    if comma and cut * 2 == len(order) and cut > 0:
        bk = draw(st.sampled_from([0, 0, 1, -1]))
    # symmetrise with (1 +- P_pq) over same-class target pairs so that the
    # code generator finds permutation operators to factor out
    import itertools
    gens = []
    groups = [order[:cut], order[cut:]] if comma else [order]
    for grp in groups:
        pairs = [(p_, q_) for p_, q_ in itertools.combinations(grp, 2)
                 if label_class(p_) == label_class(q_)]
        if pairs and draw(st.integers(0, 2)) != 0:
            gens.append([*draw(st.sampled_from(pairs)),
                         draw(st.sampled_from([1, -1]))])
    case = {"terms": base["terms"], "order": order, "cut": cut, "gens": gens,
            "comma": comma, "bk": bk,
            "antisym_result": draw(st.booleans()),
            "backend": draw(st.sampled_from(["einsum", "einsum",
                                             "libtensor"])),
            "optimize": draw(st.integers(0, 3)) != 0,
            "max_itmd_dim": draw(st.sampled_from([None, None, None, 3, 4])),
            "max_n": draw(st.sampled_from([None, None, None, 2, 3])),
            "spin": base["spin"], "real": draw(st.booleans()),
            "number_term": draw(st.integers(0, 9)) == 0,
            "mseed": draw(st.integers(0, 2**31))}
    return case


def strategy(tier):
    return st_case()


REFUSALS = (NotImplementedError, Inputerror)


def run_case(case):
    r = R()
    order = case["order"]
    targets = tuple(syms(order))
    terms = [build_term(t) for t in case["terms"]]
    terms = [t for t in terms if t != 0]
    if not terms:
        raise BadCase("zero")
    expr = Add(*terms)
    from ..gen import rebuild, sym
    for p_, q_, f_ in case.get("gens", []):
        a_, b_ = sym(p_), sym(q_)
        expr = expr + f_ * rebuild(expr, {a_: b_, b_: a_})
    expr = S(expr).expand()
    if case.get("number_term") and not order:
        expr = expr + 2
    e = Expr(expr, real=case["real"])
    if e.sympy == 0:
        raise BadCase("zero")
    # leaves and name uniqueness
    all_idx = set(S(e.sympy).atoms(Index)) | set(targets)
    names = {}
    for i in all_idx:
        if i.name in names and names[i.name] is not i:
            r.excluded.append("two_indices_share_a_name")
            return r
        names[i.name] = i
    leaves = []
    n_leaves_max = 0
    for t in Add.make_args(S(e.sympy).expand()):
        if t.is_number:
            continue
        lv, _ = term_leaves_safe(t)
        n_leaves_max = max(n_leaves_max, len(lv))
        leaves.extend(b for _, _, b in lv)
    if n_leaves_max > 6:
        raise BadCase("too many objects")
    tnames = [parse_label(l)[0] for l in order]
    tspins = "".join(parse_label(l)[1] for l in order)
    cut = case["cut"] if case["comma"] else None
    tstr = "".join(tnames) if cut is None else \
        "".join(tnames[:cut]) + "," + "".join(tnames[cut:])
    kw = dict(target_indices=tstr, target_spin=tspins or None,
              bra_ket_sym=case["bk"],
              antisymmetric_result_tensor=case["antisym_result"],
              backend=case["backend"], max_itmd_dim=case["max_itmd_dim"],
              max_n_simultaneous_contracted=case["max_n"],
              optimize_contraction_scheme=case["optimize"])
    r.sample = f"generate_code({e}, {kw})"
    refusals = REFUSALS
    if case["max_itmd_dim"] is not None or case["max_n"] is not None:
        refusals = REFUSALS + (RuntimeError,)
    ok, code = lib_call(r, "generate_code", generate_code, e.copy(),
                        refusals=refusals, **kw)
    r.cls(f"backend={case['backend']}",
          "optimized" if case["optimize"] else "unoptimized")
    if not ok:
        r.cls("refused" if not r.fails else "exception")
        return r
    spin = bool(case["spin"])
    sizes = [(1, 1), (2, 1)] if spin else [(2, 2), (3, 2)]
    calls = perms = 0
    for k, (no, nv) in enumerate(sizes):
        m = Model(case["mseed"] + k, no, nv, spin=spin)
        ref = evaluate(m, e.sympy, targets)

        def make():
            return Interp(m, leaves, names, case["backend"], targets)
        try:
            val, calls, perms = run_program(code, make, targets, m)
        except CodeError as exc:
            sub = "code/ambiguous_block_name" if \
                "ambiguous tensor name" in str(exc) else \
                "code/not_interpretable"
            r.fail(sub, f"{exc}\n--- code for {e} ({kw}):\n{code}")
            break
        if not (val == ref).all():
            r.fail("code/value", f"program for {e} with {kw} does not "
                   f"evaluate to the expression:\n{code}")
            break
    r.nontrivial = calls >= 1 or perms >= 1
    if perms:
        r.cls("perm_header")
    if calls:
        r.cls("has_contraction")
    if spin:
        r.cls("spin")
    return r


def term_leaves_safe(t):
    from ..model import HarnessError
    try:
        return term_leaves(t)
    except HarnessError:
        raise BadCase("unexpected factor")


def run_shard(col, shard, nshards, seed, tier):
    drive(strategy(tier), run_case, N_EXAMPLES[tier], seed * 1000 + shard,
          col)


def self_test():
    common.self_test_model()
    # hand written sample programs against evaluate()
    from adcgen.indices import get_symbols
    from adcgen.sympy_objects import (AntiSymmetricTensor as AT,
                                      NonSymmetricTensor as NT, Amplitude)
    from ..codeinterp import HEADER
    from sympy import Rational
    i, j, a, b = get_symbols("ijab")
    m = Model(3, 2, 3)
    ex = Rational(3, 7) * AT("V", (i, j), (a, b)) * NT("x", (j, b)) \
        - Rational(3, 7) * AT("V", (i, j), (b, a)) * NT("x", (j, a))
    # = 6/7 V^{ij}_{ab} x_jb  written as (1 - P_ab) applied to one line
    half = Rational(3, 7) * AT("V", (i, j), (a, b)) * NT("x", (j, b))
    leaves = [AT("V", (i, j), (a, b)), NT("x", (j, b))]
    names = {s.name: s for s in (i, j, a, b)}
    tgt = (i, a)
    ref = evaluate(m, half, tgt)
    for backend, text in (
        ("einsum", f'{HEADER}\nApply 1 to:\n+ 3 / 7 * einsum("ijab,jb->ia", '
                   'hf.oovv, x_ov)  # N^4'),
        ("libtensor", f'{HEADER}\nApply 1 to:\n+ 3.0 / 7.0 * contract(j|b, '
                      'i_oovv(i|j|a|b), x_ov(j|b))  // N^4')):
        val, nc, npm = run_program(
            text, lambda: Interp(m, leaves, names, backend, tgt), tgt, m)
        assert (val == ref).all() and nc == 1, backend
    # permutation operator
    ex2 = AT("V", (i, j), (a, b)) * NT("z", (j,))   # targets i a b
    tgt2 = (i, a, b)
    ref2 = evaluate(m, 2 * ex2, tgt2)  # antisym in ab: (1 - P_ab) X = 2X
    text = (f'{HEADER}\nApply (1 - P_ab) to:\n+ 1 * einsum("ijab,j->iab", '
            'hf.oovv, z_o)  # c')
    lv = [AT("V", (i, j), (a, b)), NT("z", (j,))]
    val, _, npm = run_program(
        text, lambda: Interp(m, lv, names, "einsum", tgt2), tgt2, m)
    assert (val == ref2).all() and npm == 1
