"""C05 - ISR properties and transition moments equal explicit matrix
elements."""
import itertools

import numpy as np
from hypothesis import strategies as st
from sympy import S

from adcgen import (Expr, Operators, GroundState, IntermediateStates,
                    Properties)

from ..gen import BadCase
from ..model import Model, evaluate, P, ModelResample
from ..rspt import (Hamiltonian, RSPT, operator_apply, v_scale_series,
                    v_dot_series)
from ..isr import ISR, CLASSES
from ..runner import R, drive, lib_call
from .. import common, fock

ID = "C05"
RULE = ("Hypothesis draws (left/right ADC variant incl. mixed pairs, "
        "block/space from the two lowest classes, operator string "
        "(n_create, n_annihilate) in {0,1,2}^2, order <= 2 with cost caps, "
        "subtract_gs, ground state with/without first-order singles (then a "
        "random singles component in the first-order wavefunction), model "
        "size, seed, request kind "
        "expec_block_contribution | trans_moment_space). Oracle: explicit "
        "intermediate states and normalised perturbed ground state in "
        "determinant space (any particle-number sector): [lambda^n] sum_IJ "
        "Xt_I <I|D - <D>_0|J> Yt_J resp. sum_I Xt_I <I|D - <D>_0|Psi0> for a "
        "random operator matrix d and random normalised vectors, X = "
        "Xt/sqrt(n_o! n_v!). Non-trivial: order >= 1, or a second-class "
        "space, or mixed variants, or operator rank != (1,1); non-zero "
        "reference.")
BUDGET = {"quick": 120, "thorough": 2400}
N_EXAMPLES = {"quick": 40, "thorough": 300}
ASSUMPTIONS = ["MP partitioning; D = 1/(nc! na!) sum d a+..a.. with the "
               "annihilators in reversed order (library's operator)"]

_OBJ = {}


def make_pt(m, order, singles):
    """perturbed ground state; with first-order singles: the first-order
    wavefunction gets a random singles component (the derived properties are
    polynomials in the symbolic amplitudes, every value is admissible)"""
    pt = RSPT(Hamiltonian(m, "mp", canonical=True), order)
    if singles:
        no, N = m.no, m.N
        vals = m.rand_array((no * (N - no),), "first_order_singles")
        k = 0
        psi1 = dict(pt.psi[1])
        for i in range(no):
            for a in range(no, N):
                (det, sg), = pt.fk.apply_string(
                    [('c', a), ('a', i)], {pt.fk.ref: 1}).items()
                psi1[det] = int(vals[k]) % P
                k += 1
        pt.psi[1] = {d: v for d, v in psi1.items() if v}
    pt.install_amplitudes()
    return pt


def prop_obj(lv, rv, singles=False):
    key = (lv, rv, singles)
    if key not in _OBJ:
        gs = GroundState(Operators("mp"), first_order_singles=singles)
        l_isr = IntermediateStates(gs, lv)
        r_isr = l_isr if rv == lv else IntermediateStates(gs, rv)
        _OBJ[key] = Properties(l_isr, None if rv == lv else r_isr)
    return _OBJ[key]


@st.composite
def st_case(draw, tier):
    lv = draw(st.sampled_from(["pp", "pp", "ip", "ea", "dip", "dea"]))
    rv = lv if draw(st.integers(0, 3)) != 0 else \
        draw(st.sampled_from(["pp", "ip", "ea"]))
    kind = draw(st.sampled_from(["expec", "expec", "tm", "tm_sum",
                                 "expec_sum"]))
    sp1 = draw(st.sampled_from(CLASSES[lv][:2]))
    sp2 = draw(st.sampled_from(CLASSES[rv][:2]))
    order = draw(st.integers(0, 2))
    if kind == "expec":
        n = draw(st.sampled_from([1, 1, 1, 2]))
        nc = na = n
        size = len(sp1) + len(sp2)
        cap = {2: 2, 3: 2, 4: 2 if tier == "thorough" else 1, 5: 1, 6: 1,
               7: 0, 8: 0}
        order = min(order, cap.get(size, 0))
        if n == 2:
            order = min(order, 1 if size <= 4 else 0)
    elif kind == "expec_sum":
        nc = na = 1
    else:
        if draw(st.booleans()):
            nc, na = None, None      # library default operator string
        else:
            nc, na = draw(st.integers(0, 2)), draw(st.integers(0, 2))
            if nc == na == 0:
                nc = 1
            # only one of the two numbers given: the other one is 0
            # (`elif n_create is None: n_create = 0` in trans_moment_space)
            if nc == 0 and draw(st.booleans()):
                nc = None
            elif na == 0 and draw(st.booleans()):
                na = None
        order = min(order, 2 if len(sp1) <= 2 else 1)
    singles = draw(st.integers(0, 3)) == 0
    if singles:
        order = min(order, 1)
    return {"lv": lv, "rv": rv, "kind": kind, "sp1": sp1, "sp2": sp2,
            "order": order, "nc": nc, "na": na, "singles": singles,
            "subtract_gs": draw(st.booleans()),
            "lr": draw(st.sampled_from(["left", "right"])),
            "adc": draw(st.integers(0, 2)),
            "sum_order": draw(st.sampled_from([None, None, 0, 1, 2])),
            "size": draw(st.sampled_from([[2, 2], [3, 2], [2, 3]])),
            "mseed": draw(st.integers(0, 2**31))}


def strategy(tier):
    return st_case(tier)


def classes_upto(variant, sp):
    cl = CLASSES[variant]
    return cl[:cl.index(sp) + 1]


def run_case(case):
    r = R()
    lv, rv, kind = case["lv"], case["rv"], case["kind"]
    singles = bool(case.get("singles"))
    prop = prop_obj(lv, rv, singles)
    order, sub = case["order"], case["subtract_gs"]
    no, nv = case["size"]
    for attempt in range(4):
        try:
            m = Model(case["mseed"] + 1000 * attempt, no, nv)
            pt = make_pt(m, max(order, 1), singles)
            break
        except ModelResample:
            r.resampled += 1
    else:
        raise ModelResample("no regular model")
    fk = pt.fk
    n = order
    if singles:
        r.cls("first_order_singles")
    if kind in ("tm_sum", "expec_sum"):
        return run_sums(case, r, prop, m, pt)
    if kind == "expec":
        sp1, sp2 = case["sp1"], case["sp2"]
        nc = na = case["nc"]
        l_isr = ISR(pt, lv, classes_upto(lv, sp1), n)
        r_isr = l_isr if rv == lv and sp2 in l_isr.states else \
            ISR(pt, rv, classes_upto(rv, sp2), n)
        if rv == lv and sp2 not in l_isr.states:
            l_isr = r_isr = ISR(pt, lv, classes_upto(
                lv, max(sp1, sp2, key=lambda s: CLASSES[lv].index(s))), n)
        if not l_isr.configs[sp1] or not r_isr.configs[sp2]:
            raise BadCase("model too small")
        r.sample = (f"Properties({lv},{rv}).expec_block_contribution({order},"
                    f" '{sp1},{sp2}', {nc}, subtract_gs={sub}) model "
                    f"{case['size']}")
        ok, ex = lib_call(r, "expec_block_contribution",
                          prop.expec_block_contribution, order,
                          f"{sp1},{sp2}", nc, sub)
        if not ok:
            return r
        d = m.full_tensor("d", nc, na, "anti", 0)
        psi0 = l_isr.psi0
        Dpsi0 = [operator_apply(fk, m.N, d, nc, na, psi0[k])
                 for k in range(n + 1)]
        d0 = v_dot_series(fk, psi0, Dpsi0, n)
        xt = l_isr.amplitude_tensor(m, sp1, "X", case["mseed"] + 1)
        yt = r_isr.amplitude_tensor(m, sp2, "Y", case["mseed"] + 2)
        ref = 0
        for y_, ket in zip(yt, r_isr.states[sp2]):
            Dk = [operator_apply(fk, m.N, d, nc, na, ket[k])
                  for k in range(n + 1)]
            if sub:
                corr = v_scale_series(fk, ket, d0, n)
                Dk = [fk.add(Dk[k], corr[k], -1) for k in range(n + 1)]
            for x_, bra in zip(xt, l_isr.states[sp1]):
                ref = (ref + x_ * y_ % P *
                       v_dot_series(fk, bra, Dk, n)[n]) % P
        val = int(evaluate(m, Expr(ex).expand().sympy, ()))
        if val != ref:
            r.fail("expec_block_contribution", f"{r.sample}: derived {val}, "
                   f"explicit {ref}")
        second = CLASSES[lv].index(sp1) >= 1 or CLASSES[rv].index(sp2) >= 1
        r.nontrivial = ref != 0 and (order >= 1 or second or lv != rv
                                     or nc != 1)
        r.cls("expec", f"{lv}/{rv}", f"order={order}", f"op={nc},{na}")
    else:
        lr = case["lr"]
        variant = lv if lr == "left" else rv
        sp = case["sp1"] if lr == "left" else case["sp2"]
        nc, na = case["nc"], case["na"]
        isr = ISR(pt, variant, classes_upto(variant, sp), n)
        if not isr.configs[sp]:
            raise BadCase("model too small")
        r.sample = (f"Properties({lv},{rv}).trans_moment_space({order}, "
                    f"'{sp}', {nc}, {na}, '{lr}', subtract_gs={sub}) model "
                    f"{case['size']}")
        ok, ex = lib_call(r, "trans_moment_space", prop.trans_moment_space,
                          order, sp, nc, na, lr, sub)
        if not ok:
            return r
        if nc is None and na is None:
            ms = {"pp": "ph", "ip": "h", "ea": "p", "dip": "hh",
                  "dea": "pp"}[variant]
            nc, na = ms.count("p"), ms.count("h")
        elif nc is None or na is None:
            nc, na = nc or 0, na or 0
            r.cls("tm_one_count_omitted")
        d = m.full_tensor("d", nc, na, "anti", 0)
        psi0 = isr.psi0
        ket = [operator_apply(fk, m.N, d, nc, na, psi0[k])
               for k in range(n + 1)]
        if sub and nc == na:
            d0 = v_dot_series(fk, psi0, ket, n)
            corr = v_scale_series(fk, psi0, d0, n)
            ket = [fk.add(ket[k], corr[k], -1) for k in range(n + 1)]
        xt = isr.amplitude_tensor(m, sp, "X", case["mseed"] + 1)
        ref = 0
        for x_, st_ in zip(xt, isr.states[sp]):
            ref = (ref + x_ * v_dot_series(fk, st_, ket, n)[n]) % P
        val = int(evaluate(m, Expr(ex).expand().sympy, ()))
        if val != ref:
            r.fail("trans_moment_space", f"{r.sample}: derived {val}, "
                   f"explicit {ref}")
        second = CLASSES[variant].index(sp) >= 1
        r.nontrivial = ref != 0 and (order >= 1 or second or
                                     (nc, na) != (1, 1))
        r.cls("tm", variant, f"order={order}", f"op={nc},{na}")
    return r


def adc_spaces(variant, n):
    sp = {"pp": "ph", "ip": "h", "ea": "p", "dip": "hh", "dea": "pp"}[variant]
    out = {}
    for k in range(n // 2 + 1):
        out[sp] = n - k
        sp = "p" + sp + "h"
    return out


def run_sums(case, r, prop, m, pt):
    """trans_moment(adc) / expectation_value(adc) == sum of the admitted
    space (block) / order contributions, computed explicitly"""
    lv, rv, kind = case["lv"], case["rv"], case["kind"]
    adc, o_req, sub = case["adc"], case["sum_order"], case["subtract_gs"]
    fk = pt.fk
    if o_req is not None and o_req > adc:
        o_req = adc
    nmax = adc if o_req is None else o_req
    if pt.order < max(nmax, 1):
        pt = make_pt(m, max(nmax, 1), bool(case.get("singles")))
    if kind == "tm_sum":
        lr = case["lr"]
        variant = lv if lr == "left" else rv
        nc, na = case["nc"], case["na"]
        spaces = adc_spaces(variant, adc)
        if any(sp not in CLASSES[variant][:2] for sp in spaces):
            raise BadCase("third class")
        r.sample = (f"Properties({lv},{rv}).trans_moment({adc}, {nc}, {na}, "
                    f"order={o_req}, lr_isr='{lr}', subtract_gs={sub}) model "
                    f"{case['size']}")
        ok, ex = lib_call(r, "trans_moment", prop.trans_moment, adc, nc, na,
                          o_req, lr, sub)
        if not ok:
            return r
        if nc is None and na is None:
            ms = list(spaces)[0]
            nc, na = ms.count("p"), ms.count("h")
        elif nc is None:
            nc = 0
        elif na is None:
            na = 0
        d = m.full_tensor("d", nc, na, "anti", 0)
        isr = ISR(pt, variant, list(spaces), nmax)
        psi0 = isr.psi0
        ket = [operator_apply(fk, m.N, d, nc, na, psi0[k])
               for k in range(nmax + 1)]
        if sub and nc == na:
            d0 = v_dot_series(fk, psi0, ket, nmax)
            corr = v_scale_series(fk, psi0, d0, nmax)
            ket = [fk.add(ket[k], corr[k], -1) for k in range(nmax + 1)]
        ref = 0
        for sp, mx in spaces.items():
            if not isr.configs[sp]:
                raise BadCase("model too small")
            xt = isr.amplitude_tensor(m, sp, "X", case["mseed"] + 1)
            for x_, st_ in zip(xt, isr.states[sp]):
                ser = v_dot_series(fk, st_, ket, nmax)
                for o in range(mx + 1):
                    if o <= nmax and (o_req is None or o == o_req):
                        ref = (ref + x_ * ser[o]) % P
        val = int(evaluate(m, Expr(ex).expand().sympy, ()))
        if val != ref:
            r.fail("trans_moment", f"{r.sample}: derived {val}, explicit sum "
                   f"{ref}")
        r.nontrivial = ref != 0 and (adc >= 1)
        r.cls("tm_sum", variant, f"adc={adc}", f"order={o_req}")
        return r
    # expectation value: blocks of the left variant paired with the right one
    npart = 1
    l_sp, r_sp = adc_spaces(lv, adc), adc_spaces(rv, adc)
    if any(sp not in CLASSES[lv][:2] for sp in l_sp) or \
            any(sp not in CLASSES[rv][:2] for sp in r_sp):
        raise BadCase("third class")
    r.sample = (f"Properties({lv},{rv}).expectation_value({adc}, {npart}, "
                f"order={o_req}, subtract_gs={sub}) model {case['size']}")
    ok, ex = lib_call(r, "expectation_value", prop.expectation_value, adc,
                      npart, o_req, sub)
    if not ok:
        return r
    l_isr = ISR(pt, lv, list(l_sp), nmax)
    r_isr = l_isr if rv == lv else ISR(pt, rv, list(r_sp), nmax)
    d = m.full_tensor("d", 1, 1, "anti", 0)
    psi0 = l_isr.psi0
    Dpsi0 = [operator_apply(fk, m.N, d, 1, 1, psi0[k])
             for k in range(nmax + 1)]
    d0 = v_dot_series(fk, psi0, Dpsi0, nmax)
    lcls, rcls = list(l_sp), list(r_sp)
    ref = 0
    amps = {}
    for (k1, s1), (k2, s2) in itertools.product(enumerate(lcls),
                                                enumerate(rcls)):
        mx = adc - (k1 + 1) - (k2 + 1) + 2
        if mx < 0:
            continue
        if not l_isr.configs[s1] or not r_isr.configs[s2]:
            raise BadCase("model too small")
        if ("X", s1) not in amps:
            amps[("X", s1)] = l_isr.amplitude_tensor(m, s1, "X",
                                                     case["mseed"] + 1)
        if ("Y", s2) not in amps:
            amps[("Y", s2)] = r_isr.amplitude_tensor(m, s2, "Y",
                                                     case["mseed"] + 2)
        xt, yt = amps[("X", s1)], amps[("Y", s2)]
        for y_, ket in zip(yt, r_isr.states[s2]):
            Dk = [operator_apply(fk, m.N, d, 1, 1, ket[k])
                  for k in range(nmax + 1)]
            if sub:
                corr = v_scale_series(fk, ket, d0, nmax)
                Dk = [fk.add(Dk[k], corr[k], -1) for k in range(nmax + 1)]
            for x_, bra in zip(xt, l_isr.states[s1]):
                ser = v_dot_series(fk, bra, Dk, nmax)
                for o in range(min(mx, nmax) + 1):
                    if o_req is None or o == o_req:
                        ref = (ref + x_ * y_ % P * ser[o]) % P
    val = int(evaluate(m, Expr(ex).expand().sympy, ()))
    if val != ref:
        r.fail("expectation_value", f"{r.sample}: derived {val}, explicit "
               f"sum {ref}")
    r.nontrivial = ref != 0 and adc >= 1
    r.cls("expec_sum", f"{lv}/{rv}", f"adc={adc}", f"order={o_req}")
    return r


# fixed deep cases: fourth order is the first at which the quadratic term
# S(2) S(2) of the S^-1/2 series enters the intermediate states
_D = {"nc": None, "na": None, "subtract_gs": False, "lr": "left", "adc": 0,
      "sum_order": None, "size": [2, 2], "singles": False, "order": 4}
DEEP = [
    dict(_D, lv="ip", rv="ip", kind="tm", sp1="h", sp2="h", mseed=11),
    dict(_D, lv="ea", rv="ea", kind="tm", sp1="p", sp2="p", mseed=12,
         subtract_gs=True),
    # thorough tier only (minutes)
    dict(_D, lv="ea", rv="ea", kind="expec", sp1="p", sp2="p", nc=1, na=1,
         subtract_gs=True, mseed=13),
    dict(_D, lv="ip", rv="ip", kind="expec", sp1="h", sp2="h", nc=1, na=1,
         mseed=14),
]


def run_shard(col, shard, nshards, seed, tier):
    if shard < (2 if tier == "quick" else len(DEEP)):
        saved, col.case_timeout = col.case_timeout, None
        col.run(dict(DEEP[shard]), run_case)
        col.case_timeout = saved
    drive(strategy(tier), run_case, N_EXAMPLES[tier], seed * 1000 + shard,
          col)


SHRINK = False


def self_test():
    common.self_test_model()
    fock.self_test()
