"""C03 - secular matrix equals <I|H - E0|J> over explicitly built
intermediate states."""
import itertools
from math import factorial

import numpy as np
from hypothesis import strategies as st
from sympy import S

from adcgen import (Expr, Operators, GroundState, IntermediateStates,
                    SecularMatrix)
from adcgen.indices import get_symbols

from ..gen import BadCase, ALPHABET
from ..model import Model, evaluate, P, ModelResample, inv, root
from ..rspt import Hamiltonian, RSPT
from ..isr import ISR, CLASSES
from ..runner import R, drive, lib_call
from .. import common, fock
from .c04 import st_idx

ID = "C03"
RULE = ("Hypothesis draws (variant pp/ip/ea/dip/dea, bra/ket classes from "
        "the two lowest, order <= 2 with cost caps, subtract_gs, generated "
        "disjoint index names, model size, canonical or non-canonical Fock "
        "matrix, seed, request kind: isr_matrix_block | "
        "precursor_matrix_block | mvp_block_order | transpose pair | "
        "block_order). Oracle: MP RSPT + explicit intermediate states "
        "(excitation operators on the normalised perturbed ground state, "
        "Gram-Schmidt, S^-1/2 as matrix power series) in determinant space "
        "over F_p; every element of the derived block for every bra/ket "
        "assignment == [lambda^order] <I|H(-E0)|J> extended to unrestricted "
        "tuples by antisymmetry; MVP == p_I sum_J M_IJ Ytilde_J with Y = "
        "Ytilde/sqrt(n_o! n_v!); block (s1,s2)[I,J] == block (s2,s1)[J,I]; "
        "block_order / max_ptorder_spaces == the ADC(n) rule written out "
        "independently. Non-trivial: order >= 1, or a coupling block, or a "
        "second-class diagonal block, or variant != pp; non-zero reference.")
BUDGET = {"quick": 120, "thorough": 2400}
N_EXAMPLES = {"quick": 14, "thorough": 140}
ASSUMPTIONS = ["MP partitioning (f_ov = 0); C_I = a+_a a+_b a_i a_j"]

_OBJ = {}


def sm_obj(variant):
    if variant not in _OBJ:
        gs = GroundState(Operators("mp"))
        _OBJ[variant] = SecularMatrix(IntermediateStates(gs, variant))
    return _OBJ[variant]


@st.composite
def st_case(draw, tier):
    variant = draw(st.sampled_from(["pp", "pp", "ip", "ea", "dip", "dea"]))
    cls = CLASSES[variant][:2]
    sp1, sp2 = draw(st.sampled_from(cls)), draw(st.sampled_from(cls))
    kind = draw(st.sampled_from(["isr", "isr", "isr", "mvp", "precursor",
                                 "transpose", "block_order", "mvp_sum",
                                 "expval", "expval_sum"]))
    order = draw(st.integers(0, 2))
    size = len(sp1) + len(sp2)
    cap = {"quick": {2: 2, 3: 2, 4: 2, 5: 1, 6: 1, 7: 1, 8: 1},
           "thorough": {2: 3, 3: 2, 4: 2, 5: 2, 6: 2, 7: 1, 8: 1}}[tier]
    order = min(order, cap.get(size, 0))
    if tier == "thorough" and size == 2 and draw(st.integers(0, 4)) == 0:
        order = 3
    i1, i2 = draw(st_idx(sp1, sp2))
    return {"variant": variant, "sp1": sp1, "sp2": sp2, "order": order,
            "kind": kind, "subtract_gs": draw(st.booleans()),
            "i1": i1, "i2": i2,
            "size": draw(st.sampled_from([[2, 2], [3, 2], [2, 3], [3, 3]])),
            "canonical": draw(st.booleans()),
            "adc_order": draw(st.integers(0, 4)),
            "mvp_adc": draw(st.integers(0, 2)),
            "mvp_order": draw(st.sampled_from([None, None, 0, 1, 2])),
            "mseed": draw(st.integers(0, 2**31))}


def strategy(tier):
    return st_case(tier)


def adc_rule(variant, n):
    """independent statement of the ADC(n) rule: classes mu <= n//2 + 1;
    block (mu, nu) through order n - mu - nu + 2"""
    cls = []
    sp = {"pp": "ph", "ip": "h", "ea": "p", "dip": "hh", "dea": "pp"}[variant]
    for mu in range(1, n // 2 + 2):
        cls.append(sp)
        sp = "p" + sp + "h"
    spaces = {c: n - k for k, c in enumerate(cls)}
    blocks = {}
    for (k1, c1), (k2, c2) in itertools.product(enumerate(cls), repeat=2):
        mu, nu = k1 + 1, k2 + 1
        blocks[(c1, c2)] = n - mu - nu + 2
    return spaces, blocks


def make_oracle(case, order, classes, attempt):
    no, nv = case["size"]
    m = Model(case["mseed"] + 1000 * attempt, no, nv)
    ham = Hamiltonian(m, "mp", canonical=case["canonical"])
    pt = RSPT(ham, order)
    pt.install_amplitudes()
    return m, ham, pt, ISR(pt, case["variant"], classes, order)


def run_case(case):
    r = R()
    variant = case["variant"]
    sm = sm_obj(variant)
    if case["kind"] == "block_order":
        n = case["adc_order"]
        spaces, blocks = adc_rule(variant, n)
        got_s = sm.max_ptorder_spaces(n)
        got_b = sm.block_order(n)
        r.sample = f"SecularMatrix({variant}).block_order({n})"
        if dict(got_s) != spaces:
            r.fail("max_ptorder_spaces", f"{variant} ADC({n}): {got_s} vs "
                   f"{spaces}")
        if {tuple(k): v for k, v in got_b.items()} != blocks:
            r.fail("block_order", f"{variant} ADC({n}): {got_b} vs {blocks}")
        r.nontrivial = n >= 2
        r.cls("block_order")
        return r
    if case["kind"] == "mvp_sum":
        return run_mvp_sum(case, r, sm)
    if case["kind"] == "expval_sum":
        return run_expval_sum(case, r, sm)
    sp1, sp2, order = case["sp1"], case["sp2"], case["order"]
    sub = case["subtract_gs"]
    I = get_symbols(case["i1"])
    J = get_symbols(case["i2"])
    s1, s2 = "".join(case["i1"]), "".join(case["i2"])
    allcls = CLASSES[variant]
    need = [c for c in allcls
            if allcls.index(c) <= max(allcls.index(sp1), allcls.index(sp2))]
    for attempt in range(4):
        try:
            m, ham, pt, isr = make_oracle(case, order, need, attempt)
            break
        except ModelResample:
            r.resampled += 1
    else:
        raise ModelResample("no regular model")
    if not isr.configs[sp1] or not isr.configs[sp2]:
        raise BadCase("model too small for the block")
    kind = case["kind"]
    Mref = isr.matrix_series(sp1, sp2, isr.hamiltonian_series(sub),
                             use_pre=(kind == "precursor"))[order]
    nz = bool((Mref != 0).any())
    name = {"isr": "isr_matrix_block", "transpose": "isr_matrix_block",
            "precursor": "precursor_matrix_block",
            "mvp": "mvp_block_order",
            "expval": "expectation_value_block_order"}[kind]
    r.sample = (f"SecularMatrix({variant}).{name}({order}, '{sp1},{sp2}', "
                f"'{s1},{s2}', subtract_gs={sub}) model {case['size']} "
                f"canonical={ham.canonical}")
    if kind in ("isr", "precursor", "transpose"):
        fn = sm.precursor_matrix_block if kind == "precursor" else \
            sm.isr_matrix_block
        ok, ex = lib_call(r, name, fn, order, f"{sp1},{sp2}", f"{s1},{s2}",
                          sub)
        if not ok:
            return r
        tgt = tuple(I) + tuple(J)
        val = evaluate(m, Expr(ex).expand().sympy, tgt)
        ref = isr.expand_unrestricted(sp1, I, sp2, J, Mref, m)
        if not (val == ref).all():
            r.fail(name, f"{r.sample}: {int((val != ref).sum())} of "
                   f"{ref.size} elements differ from the explicit matrix "
                   "element")
        if kind == "transpose" and not r.fails:
            ok, ex2 = lib_call(r, name + "_T", fn, order, f"{sp2},{sp1}",
                               f"{s2},{s1}", sub)
            if ok:
                val2 = evaluate(m, Expr(ex2).expand().sympy,
                                tuple(J) + tuple(I))
                n1 = len(I)
                perm = list(range(len(J), len(J) + n1)) + list(range(len(J)))
                if not (np.transpose(val2, perm) == val).all():
                    r.fail("transpose", f"{r.sample}: block ({sp2},{sp1}) is "
                           "not the transpose")
    elif kind == "expval":
        # energy expectation value contribution of one block:
        # sum_{I<,J<} Xt_I M_IJ Yt_J for normalised vectors Xt, Yt
        r.sample = (f"SecularMatrix({variant}).{name}({order}, "
                    f"'{sp1},{sp2}', subtract_gs={sub}) model {case['size']}")
        ok, ex = lib_call(r, name, sm.expectation_value_block_order, order,
                          f"{sp1},{sp2}", sub)
        if not ok:
            return r
        yt = isr.amplitude_tensor(m, sp2, "Y", case["mseed"])
        xt = isr.amplitude_tensor(m, sp1, "X", case["mseed"] + 1)
        vec = (Mref.astype(object) @ np.array(yt, dtype=object)) % P
        ref = int(sum(int(a) * int(b) for a, b in zip(xt, vec)) % P)
        val = int(evaluate(m, Expr(ex).expand().sympy, ()))
        if val != ref:
            r.fail(name, f"{r.sample}: value differs from X^T M Y")
    else:   # mvp
        ok, ex = lib_call(r, name, sm.mvp_block_order, order, sp1,
                          f"{sp1},{sp2}", s1, sub)
        if not ok:
            return r
        yt = isr.amplitude_tensor(m, sp2, "Y", case["mseed"])
        vec = (Mref @ np.array(yt, dtype=object)) % P
        n_p, n_h = sp1.count("p"), sp1.count("h")
        p_I = inv(root(factorial(n_p) * factorial(n_h)))
        vec = np.array([int(v) * p_I % P for v in vec], dtype=np.int64)
        ref = isr.expand_unrestricted(sp1, I, None, (), vec, m)
        val = evaluate(m, Expr(ex).expand().sympy, tuple(I))
        if not (val == ref).all():
            r.fail(name, f"{r.sample}: {int((val != ref).sum())} of "
                   f"{ref.size} elements differ from p_I sum_J M_IJ Y_J")
    second = allcls.index(sp1) >= 1 and allcls.index(sp2) >= 1
    r.nontrivial = nz and (order >= 1 or sp1 != sp2 or second or
                           variant != "pp")
    r.cls(kind, variant, f"order={order}",
          "coupling" if sp1 != sp2 else "diagonal", f"subtract_gs={sub}")
    return r


def run_mvp_sum(case, r, sm):
    """mvp(adc_order, space, indices, order, subtract_gs) == sum over the
    blocks / orders the ADC(n) rule admits"""
    variant = case["variant"]
    n = case["mvp_adc"]
    spaces, blocks = adc_rule(variant, n)
    cls = [c for c in CLASSES[variant][:2] if c in spaces]
    space = case["sp1"] if case["sp1"] in cls else cls[0]
    o_req = case["mvp_order"]
    sub = case["subtract_gs"]
    I = get_symbols(case["i1"]) if space == case["sp1"] else None
    if I is None:
        raise BadCase("index names do not fit the space")
    s1 = "".join(case["i1"])
    todo = []
    for (b1, b2), mx in blocks.items():
        if b1 != space or b2 not in CLASSES[variant][:2]:
            if b1 == space and b2 not in CLASSES[variant][:2]:
                raise BadCase("third class needed")
            continue
        for o in range(mx + 1):
            if o_req is None or o == o_req:
                todo.append((b2, o))
    if not todo:
        raise BadCase("nothing to sum")
    if any(len(space) + len(b2) >= 6 and o >= 2 for b2, o in todo):
        raise BadCase("too expensive")
    max_o = max(o for _, o in todo)
    need = CLASSES[variant][:2]
    for attempt in range(4):
        try:
            m, ham, pt, isr = make_oracle(case, max(max_o, 1), need, attempt)
            break
        except ModelResample:
            r.resampled += 1
    else:
        raise ModelResample("no regular model")
    if any(not isr.configs[c] for c in need):
        raise BadCase("model too small")
    r.sample = (f"SecularMatrix({variant}).mvp({n}, '{space}', '{s1}', "
                f"order={o_req}, subtract_gs={sub}) model {case['size']}")
    ok, ex = lib_call(r, "mvp", sm.mvp, n, space, s1, o_req, sub)
    if not ok:
        return r
    n_p, n_h = space.count("p"), space.count("h")
    p_I = inv(root(factorial(n_p) * factorial(n_h)))
    vec = np.zeros(len(isr.configs[space]), dtype=object)
    yts = {}
    for b2, o in todo:
        if b2 not in yts:
            yts[b2] = isr.amplitude_tensor(m, b2, "Y", case["mseed"])
        M = isr.matrix_series(space, b2, isr.hamiltonian_series(sub))[o]
        vec = (vec + M.astype(object) @ np.array(yts[b2], dtype=object)) % P
    vec = np.array([int(v) * p_I % P for v in vec], dtype=np.int64)
    ref = isr.expand_unrestricted(space, I, None, (), vec, m)
    val = evaluate(m, Expr(ex).expand().sympy, tuple(I))
    if not (val == ref).all():
        r.fail("mvp", f"{r.sample}: {int((val != ref).sum())} of {ref.size} "
               "elements differ from the sum of the admitted blocks/orders")
    r.nontrivial = bool((ref != 0).any()) and len(todo) >= 2
    r.cls("mvp_sum", variant, f"adc={n}", f"order={o_req}",
          f"subtract_gs={sub}")
    return r


def run_expval_sum(case, r, sm):
    """expectation_value(adc_order, order, subtract_gs) == sum over all
    blocks / orders the ADC(n) rule admits of Xt^T M Yt"""
    variant = case["variant"]
    n = case["mvp_adc"]
    spaces, blocks = adc_rule(variant, n)
    o_req = case["mvp_order"]
    sub = case["subtract_gs"]
    need = CLASSES[variant][:2]
    todo = []
    for (b1, b2), mx in blocks.items():
        if b1 not in need or b2 not in need:
            raise BadCase("third class needed")
        for o in range(mx + 1):
            if o_req is None or o == o_req:
                todo.append((b1, b2, o))
    if not todo:
        raise BadCase("nothing to sum")
    if any(len(b1) + len(b2) >= 6 and o >= 2 for b1, b2, o in todo):
        raise BadCase("too expensive")
    max_o = max(o for _, _, o in todo)
    for attempt in range(4):
        try:
            m, ham, pt, isr = make_oracle(case, max(max_o, 1), need, attempt)
            break
        except ModelResample:
            r.resampled += 1
    else:
        raise ModelResample("no regular model")
    if any(not isr.configs[c] for c in need):
        raise BadCase("model too small")
    r.sample = (f"SecularMatrix({variant}).expectation_value({n}, "
                f"order={o_req}, subtract_gs={sub}) model {case['size']}")
    ok, ex = lib_call(r, "expectation_value", sm.expectation_value, n, o_req,
                      sub)
    if not ok:
        return r
    xts, yts = {}, {}
    for c in need:
        if c in spaces:
            yts[c] = isr.amplitude_tensor(m, c, "Y", case["mseed"])
            xts[c] = isr.amplitude_tensor(m, c, "X", case["mseed"] + 1)
    ref = 0
    for b1, b2, o in todo:
        M = isr.matrix_series(b1, b2, isr.hamiltonian_series(sub))[o]
        vec = (M.astype(object) @ np.array(yts[b2], dtype=object)) % P
        ref = (ref + sum(int(a) * int(b) for a, b in zip(xts[b1], vec))) % P
    val = int(evaluate(m, Expr(ex).expand().sympy, ()))
    if val != int(ref):
        r.fail("expectation_value", f"{r.sample}: value differs from the "
               "sum of X^T M Y over the admitted blocks/orders")
    r.nontrivial = ref != 0 and len(todo) >= 2
    r.cls("expval_sum", variant, f"adc={n}", f"order={o_req}",
          f"subtract_gs={sub}")
    return r


# fixed deep case: the projection of a *bra* doubles precursor onto the
# lower class first picks up the perturbed ground state at third order
# (ADC(4)-level coupling block phh,h); run by the last shard only (~1.5 min)
DEEP = [
    {"variant": "ip", "sp1": "phh", "sp2": "h", "order": 3, "kind": "isr",
     "subtract_gs": True, "i1": ["i", "j", "a"], "i2": ["k"], "size": [3, 2],
     "canonical": True, "adc_order": 0, "mvp_adc": 0, "mvp_order": None,
     "mseed": 5},
]


def run_shard(col, shard, nshards, seed, tier):
    if nshards - 1 - shard in range(len(DEEP)):
        col.run(DEEP[nshards - 1 - shard], run_case)
    drive(strategy(tier), run_case, N_EXAMPLES[tier], seed * 1000 + shard,
          col)


SHRINK = False


def self_test():
    common.self_test_model()
    fock.self_test()
    m = Model(11, 2, 2)
    pt = RSPT(Hamiltonian(m, "mp", canonical=False), 2)
    pt.self_test()
    isr = ISR(pt, "pp", ["ph", "pphh"], 2)
    isr.self_test()
    M = isr.matrix_series("ph", "ph", isr.hamiltonian_series(True))
    for k in range(3):
        assert (M[k] == M[k].T).all(), "M not symmetric"
    isr = ISR(RSPT(Hamiltonian(Model(12, 3, 2), "mp"), 2), "ip",
              ["h", "phh"], 2)
    isr.self_test()
