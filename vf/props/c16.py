"""C16 - contraction schemes compute the term and respect their bounds."""
from hypothesis import strategies as st
from sympy import S, Mul

from adcgen import Expr, optimize_contractions, unoptimized_contraction
from adcgen.generate_code.contraction import Contraction

from ..gen import (Cfg, st_expr_case, build_term, syms, label_class,
                   parse_label, term_label_count, BadCase)
from ..model import Model, evaluate, idx_key, P, number_mod
from ..interp import run_scheme, SchemeError, recompute_scaling, term_leaves
from ..runner import R, drive, lib_call
from .. import common

ID = "C16"
RULE = ("Hypothesis: single terms of 1-5 tensors/deltas (exponents, traces, "
        "outer products, disconnected groups, hyper-contractions, Symbols, "
        "rational prefactors), requested target order = generated "
        "permutation of the free indices (or None = canonical), with/without "
        "spin, max_itmd_dim in {None,2,3,4,6}, max_n_simultaneous_contracted "
        "in {None,2,3,4}; optimize_contractions and unoptimized_contraction "
        "executed step by step by an independent interpreter on an F_p "
        "model: leaves used exactly once, every summed index summed exactly "
        "once and not too early, one final step with the requested target "
        "order, value == value of the term, limits respected, reported "
        "scaling == recomputed, max scaling <= unoptimized. Non-trivial: "
        ">= 3 objects, or a limit that changes the scheme, or a "
        "trace/hyper-contraction.")
BUDGET = {"quick": 90, "thorough": 1500}
N_EXAMPLES = {"quick": 500, "thorough": 10000}
ASSUMPTIONS = ["'RuntimeError: Could not find a valid contraction scheme' "
               "under explicit limits is a documented refusal"]

MAX_LEAVES = 6
CFG = Cfg(min_obj=1, max_obj=4, max_terms=1, max_target=4, max_exp=2,
          allow_hyper=True, allow_explicit=False, allow_general=True,
          spin_modes=[False, False, False, True], max_slots=14,
          names=["V", "f", "C", "A", "B", "t1", "t2", "X", "Y", "R", "v",
                 "x", "y", "z", "w", "delta"])


@st.composite
def st_case(draw):
    # a block name (<name>_<space>) does not encode the upper/lower split:
    # one rank per tensor name and term, as in every real use (cf. C17)
    from ..gen import CAT_BY_NAME
    cfg = Cfg(**CFG.__dict__)
    cfg.rank_override = {}
    for nm in ("A", "B", "C", "R", "t2", "X", "Y"):
        cfg.rank_override[nm] = [draw(st.sampled_from(CAT_BY_NAME[nm][2]))]
    base = draw(st_expr_case(cfg))
    tg = list(base["targets"])
    order = list(draw(st.permutations(tg)))
    return {"term": base["terms"][0], "targets": order,
            "give_targets": draw(st.integers(0, 3)) != 0,
            "spin": base["spin"],
            "max_itmd_dim": draw(st.sampled_from([None, None, 2, 3, 4, 6])),
            "max_n": draw(st.sampled_from([None, None, 2, 3, 4])),
            "mseed": draw(st.integers(0, 2**31))}


def strategy(tier):
    return st_case()


def check_scheme(r, tag, m, term_sympy, scheme, req_target, ref, limits):
    if isinstance(scheme, Contraction) or not isinstance(scheme, list):
        r.fail(f"{tag}/not_a_list", f"returned {type(scheme).__name__}")
        return None
    if not scheme:
        leaves, _ = term_leaves(term_sympy)
        if leaves:
            r.fail(f"{tag}/empty_scheme", f"{term_sympy}")
        return None
    try:
        arr, tgt, scalar = run_scheme(m, term_sympy, scheme, req_target)
    except SchemeError as exc:
        sub, msg = exc.args
        r.fail(f"{tag}/{sub}", f"{term_sympy}: {msg}")
        return None
    if tuple(tgt) != tuple(req_target):
        r.fail(f"{tag}/final_target_order",
               f"{term_sympy}: requested {req_target}, final step gives {tgt}")
        return None
    if not (arr == ref).all():
        r.fail(f"{tag}/value", f"{term_sympy} target {req_target}: scheme "
               f"{[ (c.names, c.indices, c.target) for c in scheme]}")
    for c in scheme:
        comp, mem = recompute_scaling(c)
        got_c = c.scaling.computational
        got_m = c.scaling.memory
        if any(getattr(got_c, k) != v for k, v in comp.items()) or \
                any(getattr(got_m, k) != v for k, v in mem.items()):
            r.fail(f"{tag}/scaling", f"step {c.names} {c.indices}->{c.target}"
                   f": reported {c.scaling}, recomputed comp {comp} mem {mem}")
            break
    dim, nmax = limits
    if dim is not None:
        for c in scheme[:-1]:
            if len(c.target) > dim:
                if tuple(c.target) == tuple(req_target):
                    # known finding F10: an inner step that already carries
                    # the complete requested target tuple is taken for the
                    # outer contraction and exempted from the limit
                    r.fail(f"{tag}/max_itmd_dim_inner_step_with_full_target",
                           f"{term_sympy}: inner step {c.names} has target "
                           f"{c.target} > max_itmd_dim={dim}")
                else:
                    r.fail(f"{tag}/max_itmd_dim", f"inner step with target "
                           f"{c.target} > {dim}")
                break
    if nmax is not None:
        for c in scheme:
            if len(c.names) > nmax:
                r.fail(f"{tag}/max_n_simultaneous", f"{len(c.names)} > {nmax}:"
                       f" {c.names}")
                break
    return scheme


def run_case(case):
    r = R()
    t = build_term(case["term"])
    if t == 0:
        raise BadCase("zero term")
    e = Expr(t)
    if len(e) != 1:
        raise BadCase("not a single term")
    ranks = {}
    for o in case["term"]["objs"]:
        if o["k"] in ("A", "S", "T") and \
                ranks.setdefault(o["name"], (len(o["u"]), len(o["l"]))) != \
                (len(o["u"]), len(o["l"])):
            # A^i_j and A^{ij} both are 'A_oo' with indices (i, j): the
            # scheme text cannot tell them apart
            raise BadCase("one tensor name with two upper/lower splits")
    term = e.terms[0]
    tl = list(case["targets"])
    ein = sorted(l for l, n in term_label_count(case["term"]).items() if n == 1)
    if sorted(tl) != ein:
        raise BadCase("targets are not the free indices")
    if case["give_targets"]:
        req = tuple(syms(tl))
        names = "".join(parse_label(l)[0] for l in tl)
        spins = "".join(parse_label(l)[1] for l in tl)
        if spins and len(spins) != len(tl):
            raise BadCase("mixed spin targets")
        kw = {"target_indices": names, "target_spin": spins or None}
    else:
        req = tuple(sorted(syms(tl), key=lambda i: (
            {"occ": 0, "virt": 1, "general": 2}[i.space], i.spin,
            int(i.name[1:]) if i.name[1:] else 0, i.name[0])))
        kw = {}
    limits = (case["max_itmd_dim"], case["max_n"])
    r.sample = (f"optimize_contractions({e}, {kw}, max_itmd_dim={limits[0]}, "
                f"max_n_simultaneous_contracted={limits[1]})")
    leaves, scalar = term_leaves(term.sympy)
    if len(leaves) > MAX_LEAVES:   # scheme enumeration is exponential
        raise BadCase("too many objects")
    if not case["give_targets"]:
        # canonical order of the library for Einstein targets: only the SET
        # is specified by the statement ("requested order" is None)
        pass
    m = Model(case["mseed"], *((1, 1) if case["spin"] else (2, 2)),
              spin=bool(case["spin"]))
    ref_full = evaluate(m, Mul(*[b for _, _, b in leaves]), req) if leaves \
        else None
    refusal = (RuntimeError,) if (limits[0] is not None or
                                  limits[1] is not None) else ()
    ok, scheme = lib_call(r, "optimize", optimize_contractions, term,
                          max_itmd_dim=limits[0],
                          max_n_simultaneous_contracted=limits[1],
                          refusals=refusal, **kw)
    ok_u, unopt = lib_call(r, "unoptimized", unoptimized_contraction, term,
                           **kw)
    got = None
    if ok and leaves:
        if not case["give_targets"] and isinstance(scheme, list) and scheme:
            # accept the library's canonical order of the Einstein targets
            if set(scheme[-1].target) == set(req):
                req = tuple(scheme[-1].target)
                ref_full = evaluate(m, Mul(*[b for _, _, b in leaves]), req)
        got = check_scheme(r, "opt", m, term.sympy, scheme, req, ref_full,
                           limits)
    elif ok and not leaves and scheme:
        r.fail("opt/scheme_for_no_tensors", f"{scheme}")
    if ok_u and leaves:
        req_u = req
        if not case["give_targets"] and unopt and \
                set(unopt[-1].target) == set(req):
            req_u = tuple(unopt[-1].target)
        ref_u = ref_full if req_u == req else evaluate(
            m, Mul(*[b for _, _, b in leaves]), req_u)
        check_scheme(r, "unopt", m, term.sympy, unopt, req_u, ref_u,
                     (None, None))
        if len(unopt) != 1 and unopt:
            r.fail("unopt/not_single_step", f"{len(unopt)} steps")
    if got and ok_u and unopt and isinstance(unopt, list):
        mx = max(c.scaling.computational.total for c in got)
        un = unopt[0].scaling.computational.total
        if mx > un:
            r.fail("opt/worse_than_unoptimized", f"{term}: max step scaling "
                   f"N^{mx} > N^{un}")
    # classes
    nobj = len(leaves)
    cnt = term_label_count(case["term"])
    trace = any(len(set(idx)) < len(idx) for _, idx, _ in leaves)
    hyper = any(n >= 3 for n in cnt.values())
    changed = False
    if got and (limits[0] is not None or limits[1] is not None):
        ok2, free = lib_call(R(), "opt_free", optimize_contractions, term, **kw)
        if ok2 and isinstance(free, list) and \
                [(c.names, c.indices) for c in free] != \
                [(c.names, c.indices) for c in got]:
            changed = True
    r.nontrivial = bool(ok and (nobj >= 3 or changed or trace or hyper))
    r.cls(f"nobj={min(nobj, 6)}")
    for flag, name in ((trace, "trace"), (hyper, "hyper"), (changed, "limit_changes_scheme"),
                       (case["spin"], "spin"), (case["give_targets"], "explicit_order")):
        if flag:
            r.cls(name)
    if got:
        r.cls(f"steps={min(len(got), 5)}")
    return r


def run_shard(col, shard, nshards, seed, tier):
    drive(strategy(tier), run_case, N_EXAMPLES[tier], seed * 1000 + shard,
          col)


def self_test():
    common.self_test_model()
