"""C10 - reported permutational symmetries are true; decompositions are
lossless."""
import itertools
from collections import Counter

import numpy as np
from hypothesis import strategies as st
from sympy import S, Add, Mul, Pow

from adcgen import Expr, sort
from adcgen.simplify import filter_tensor
from adcgen.indices import Index
from adcgen.sympy_objects import (KroneckerDelta, SymbolicTensor, Amplitude,
                                  NonSymmetricTensor)

from ..gen import (Cfg, st_expr_case, build_term, syms, sym, label_class,
                   parse_label, term_label_count, BadCase, rebuild,
                   sort_labels)
from ..model import Model, evaluate, idx_key, P, einstein_target
from ..runner import R, drive, lib_call
from .. import common

ID = "C10"
RULE = ("Hypothesis: (a) terms/objects with generated tensors -> every entry "
        "of Term.symmetry()/Obj.symmetry() (all / only_contracted / "
        "only_target) is applied by independent reconstruction and must give "
        "+-value on 2 F_p models (a reported -1 on summed indices forces the "
        "value 0); (b) expressions (1 +- P)(1 +- P')T + unrelated terms with "
        "generated target strings (with/without ','), bra-ket symmetry "
        "0/+-1, (anti)symmetric result tensor -> exploit_perm_sym parts "
        "re-expanded with the reported permutation operators (axis swaps) "
        "reproduce the value; (c) by_delta_types, by_delta_indices, "
        "by_tensor_block, by_tensor_target_block, by_tensor_target_indices, "
        "filter_tensor: parts sum to the input symbolically and every term "
        "lies under the key an independent re-implementation of the "
        "documented key computes. Non-trivial: a reported symmetry that "
        "involves >= 2 objects, or >= 2 keys.")
BUDGET = {"quick": 90, "thorough": 1500}
N_EXAMPLES = {"quick": 1500, "thorough": 25000}
ASSUMPTIONS = ["permutation operators act on value arrays as axis swaps in "
               "the order they are listed"]

CFG_SYM = Cfg(max_obj=3, max_terms=1, max_target=4, max_exp=2,
              allow_hyper=False, max_slots=8, allow_symbols=False,
              names=["V", "f", "d", "A", "B", "C", "t1", "t2", "X", "R", "v",
                     "M", "x", "z", "delta"])
CFG_DEC = Cfg(max_obj=4, max_terms=5, max_target=3, max_exp=2,
              allow_hyper=False, weights={"delta": 3, "V": 2, "t2": 2})


# ------------------------------------------------------------ (a) symmetry
@st.composite
def st_sym_case(draw):
    base = draw(st_expr_case(CFG_SYM))
    return {"sub": "symmetry", "term": base["terms"][0],
            "targets": base["targets"], "explicit": base["explicit"],
            "spin": base["spin"],
            "mode": draw(st.sampled_from(["all", "contracted", "target"])),
            "obj": draw(st.integers(0, 3)),
            "mseed": draw(st.integers(0, 2**31))}


def apply_perms(expr, perms):
    for p, q in perms:
        expr = rebuild(expr, {p: q, q: p})
    return expr


def run_symmetry(case, r):
    t = build_term(case["term"])
    if t == 0:
        raise BadCase("zero")
    targets = tuple(sorted(syms(case["targets"]), key=idx_key))
    kw = {"target_idx": list(targets)} if case["explicit"] else {}
    e = Expr(t, **kw)
    if len(e) != 1:
        raise BadCase("not one term")
    term = e.terms[0]
    mode = case["mode"]
    mkw = {"only_contracted": mode == "contracted",
           "only_target": mode == "target"}
    r.sample = f"Term({e}).symmetry({mode}) targets={targets}"
    # the library enumerates all permutations per (space, spin) class and
    # their products: keep the factorial growth bounded
    from math import factorial
    pool = {"all": set(t.atoms(Index)),
            "contracted": set(t.atoms(Index)) - set(targets),
            "target": set(targets)}[mode]
    cnt = Counter(i.space_and_spin for i in pool)
    if mode == "all":
        # Term.idx lists an index once per occurrence; the enumeration runs
        # over that list (it does not terminate in practice for > 6 entries)
        cnt = Counter()
        for lbl, n in term_label_count(case["term"]).items():
            cnt[label_class(lbl)] += n
        if max(cnt.values(), default=0) > 5:
            raise BadCase("too many index occurrences for symmetry()")
    size = 1
    for n in cnt.values():
        size *= factorial(n)
    if size > 300 or max(cnt.values(), default=0) > 4:
        raise BadCase("too many indices for the factorial enumeration")
    ok, symm = lib_call(r, "term_symmetry", lambda: term.symmetry(**mkw))
    if not ok:
        return
    jobs = [("term", t, symm)]
    objs = term.objects
    if objs:
        o = objs[case["obj"] % len(objs)]
        if not o.sympy.is_number:
            ok, osym = lib_call(r, "obj_symmetry", lambda: o.symmetry(**mkw))
            if ok:
                jobs.append(("obj", o.sympy, osym))
    models = [Model(case["mseed"] + k, *sz, spin=case["spin"]) for k, sz in
              enumerate([(1, 1), (2, 1)] if case["spin"] else [(2, 3), (3, 2)])]
    multi = False
    for tag, ex, sy in jobs:
        if tag == "obj":
            # for an object all its own indices are free unless restricted
            if mode == "all":
                tg = tuple(sorted(set(S(ex).atoms(Index)), key=idx_key))
            else:
                tg = tuple(i for i in targets if i in S(ex).atoms(Index))
        else:
            tg = targets
        for perms, factor in sy.items():
            if factor not in (1, -1):
                r.fail(f"{tag}/factor", f"{perms}: {factor}")
                continue
            flat = [i for pq in perms for i in pq]
            if any(a.space_and_spin != b.space_and_spin for a, b in perms):
                r.fail(f"{tag}/cross_space_perm", f"{perms}")
                continue
            pex = apply_perms(ex, perms)
            if mode == "contracted" and any(i in targets for i in flat):
                r.fail(f"{tag}/target_in_contracted_sym", f"{perms}")
            if mode == "target" and any(i not in targets for i in flat):
                r.fail(f"{tag}/contracted_in_target_sym", f"{perms}")
            for m in models:
                v0 = evaluate(m, ex, tg)
                v1 = evaluate(m, pex, tg)
                if not ((v1 - factor * v0) % P == 0).all():
                    r.fail(f"{tag}/not_a_symmetry",
                           f"{ex}: reported {perms} -> {factor:+d} (mode "
                           f"{mode}, free {tg}) does not hold in value")
                    break
            if tag == "term":
                holders = [f for f in Mul.make_args(t)
                           if set(flat) & f.atoms(Index)]
                if len(holders) >= 2:
                    multi = True
    r.nontrivial = multi
    r.cls("symmetry", f"mode={mode}", f"n_sym={min(len(symm), 8)}")


# ---------------------------------------------------- (b) exploit_perm_sym
@st.composite
def st_perm_case(draw):
    cfg = Cfg(max_obj=3, min_obj=1, max_terms=2, max_target=4, max_exp=1,
              allow_hyper=False, allow_explicit=False, allow_general=False,
              allow_symbols=False, max_slots=9,
              spin_modes=[False, False, False, True],
              names=["V", "f", "d", "A", "t1", "t2", "X", "Y", "R", "x", "z",
                     "y"])
    base = draw(st_expr_case(cfg))
    tg = list(base["targets"])
    # split into upper / lower
    order = list(draw(st.permutations(tg)))
    cut = draw(st.integers(0, len(order)))
    use_comma = draw(st.booleans()) and len(order) > 0
    upper, lower = (order[:cut], order[cut:]) if use_comma else (order, [])
    bk = 0
    if use_comma and len(upper) == len(lower) and len(upper) > 0:
        bk = draw(st.sampled_from([0, 0, 1, -1]))
    # transpositions inside upper / lower between labels of equal class
    gens = []
    for grp in (upper, lower):
        pairs = [(a, b) for a, b in itertools.combinations(grp, 2)
                 if label_class(a) == label_class(b)]
        if pairs and draw(st.integers(0, 4)) != 0:
            gens.append([*draw(st.sampled_from(pairs)),
                         draw(st.sampled_from([1, -1]))])
    if bk and draw(st.booleans()) and all(
            label_class(a) == label_class(b) for a, b in zip(upper, lower)):
        gens.append(["braket", None, bk])
    return {"sub": "perm", "terms": base["terms"], "upper": upper,
            "lower": lower, "comma": use_comma, "bk": bk, "gens": gens,
            "antisym_result": draw(st.booleans()),
            "give_targets": draw(st.integers(0, 4)) != 0,
            "denom": draw(st.sampled_from([0, 0, 0, 1, 2])),
            "split": ([draw(st.integers(0, 7)),
                       *draw(st.sampled_from([(1, 2), (1, 3), (2, 1),
                                              (-1, 2)]))]
                      if draw(st.integers(0, 3)) == 0 else None),
            "spin": base["spin"], "mseed": draw(st.integers(0, 2**31))}


def run_perm(case, r):
    upper, lower = case["upper"], case["lower"]
    tl = upper + lower
    targets = tuple(sorted(syms(tl), key=idx_key))
    terms = [build_term(t) for t in case["terms"]]
    if case.get("denom"):
        # an orbital-energy denominator (e_v - e_o) or (e_v + e_v' - e_o -
        # e_o') per term, built from labels of the term
        from adcgen.sympy_objects import NonSymmetricTensor
        for k, t in enumerate(case["terms"]):
            lbls = sorted(term_label_count(t))
            occ = [l for l in lbls if label_class(l)[0] == "occ"]
            virt = [l for l in lbls if label_class(l)[0] == "virt"]
            if not occ or not virt or terms[k] == 0:
                continue
            n = 2 if (case["denom"] == 2 and len(occ) >= 2
                      and len(virt) >= 2) else 1
            den = Add(*[NonSymmetricTensor("e", (sym(l),)) for l in virt[:n]]) \
                - Add(*[NonSymmetricTensor("e", (sym(l),)) for l in occ[:n]])
            terms[k] = terms[k] / den
            r.cls("perm_with_denominator")
    terms = [t for t in terms if t != 0]
    if not terms:
        raise BadCase("zero")
    expr = Add(*terms)
    # symmetrise: product of (1 + f P) over the generators
    for g in case["gens"]:
        if g[0] == "braket":
            mp = {}
            for a, b in zip(upper, lower):
                mp[sym(a)] = sym(b)
                mp[sym(b)] = sym(a)
            expr = expr + g[2] * rebuild(expr, mp)
        else:
            a, b, f = sym(g[0]), sym(g[1]), g[2]
            expr = expr + f * rebuild(expr, {a: b, b: a})
    expr = S(expr).expand()
    if expr == 0:
        raise BadCase("vanishes")
    if case.get("split"):
        # not fully simplified input: one term is replaced by c1*term +
        # c2*(copy with renamed contracted indices), c1 + c2 = 1 - the image
        # of its partner under a permutation is then spread over two terms
        from sympy import Rational
        from adcgen.indices import get_symbols
        k_, p_, q_ = case["split"]
        args = list(Add.make_args(expr))
        t_ = args[int(k_) % len(args)]
        contracted = sorted((i for i in t_.atoms(Index)
                             if i not in targets), key=idx_key)
        if contracted and int(q_) != 0 and int(p_) not in (0, int(q_)):
            fresh = {"occ": ["m8", "n8", "o8", "m9", "n9"],
                     "virt": ["f8", "g8", "h8", "f9", "g9"]}
            mp = {}
            for i in contracted:
                if i.space not in fresh or not fresh[i.space]:
                    raise BadCase("no fresh name")
                mp[i] = get_symbols([fresh[i.space].pop(0)],
                                    i.spin if i.spin else None)[0]
            c1 = Rational(int(p_), int(q_))
            args[int(k_) % len(args)] = c1 * t_ + (1 - c1) * rebuild(t_, mp)
            expr = Add(*args)
            r.cls("split_term")
    has_denom = any(isinstance(a, Pow) and a.args[1].is_negative and
                    isinstance(a.args[0], Add) for a in S(expr).atoms(Pow))
    # with an orbital-energy denominator the Einstein convention cannot tell
    # the free indices (they occur in numerator and denominator): such
    # expressions carry explicit target indices, as in the library itself
    e = Expr(expr, target_idx=list(targets)) if has_denom else Expr(expr)
    kw = {"bra_ket_sym": case["bk"],
          "antisymmetric_result_tensor": case["antisym_result"]}
    if case["give_targets"] and tl:
        names_u = "".join(parse_label(l)[0] for l in upper)
        names_l = "".join(parse_label(l)[0] for l in lower)
        kw["target_indices"] = f"{names_u},{names_l}" if case["comma"] \
            else names_u + names_l
        if case["spin"]:
            su = "".join(parse_label(l)[1] for l in upper)
            sl = "".join(parse_label(l)[1] for l in lower)
            kw["target_spin"] = f"{su},{sl}" if (case["comma"] and
                                                 case["mseed"] % 2) else su + sl
    else:
        kw["bra_ket_sym"] = 0
    r.sample = f"exploit_perm_sym({e}, {kw})"
    ok, parts = lib_call(r, "exploit_perm_sym", sort.exploit_perm_sym,
                         e.copy(), **kw)
    if not ok:
        return
    nkeys = len(parts)
    found = False
    for k, (no, nv) in enumerate([(1, 1), (2, 1)] if case["spin"]
                                 else [(2, 3), (3, 2)]):
        m = Model(case["mseed"] + k, no, nv, spin=case["spin"])
        v0 = evaluate(m, e.sympy, targets)
        tot = np.zeros_like(v0)
        for key, sub in parts.items():
            v = evaluate(m, sub, targets)
            tot = (tot + v) % P
            for perms, factor in key:
                found = True
                if factor not in (1, -1):
                    r.fail("perm/factor", f"{key}")
                    return
                a = v
                for p, q in perms:
                    if p not in targets or q not in targets:
                        r.fail("perm/non_target_permutation", f"{key}")
                        return
                    a = np.swapaxes(a, targets.index(p), targets.index(q))
                tot = (tot + factor * a) % P
        if not (tot == v0).all():
            r.fail("perm/reconstruction",
                   f"{e} with {kw}: parts "
                   f"{ {str(k_): str(v_) for k_, v_ in parts.items()} } do "
                   "not reproduce the value")
            break
    # assumptions / symbolic sanity: terms of the parts are terms of input
    in_terms = set(Add.make_args(e.sympy))
    for key, sub in ({} if has_denom else parts).items():
        for t in Add.make_args(S(getattr(sub, "sympy", sub))):
            if t != 0 and t not in in_terms:
                r.fail("perm/foreign_term", f"{t} not a term of {e}")
                break
    r.nontrivial = found or nkeys >= 2
    r.cls("exploit_perm_sym", f"keys={min(nkeys, 4)}",
          "found_sym" if found else "no_sym",
          f"bk={case['bk']}", "comma" if case["comma"] else "nocomma")


# ----------------------------------------------------- (c) decompositions
@st.composite
def st_dec_case(draw):
    base = draw(st_expr_case(CFG_DEC))
    names = sorted({o["name"] for t in base["terms"] for o in t["objs"]
                    if o["k"] in "ASTN"})
    fn = draw(st.sampled_from(["by_delta_types", "by_delta_indices",
                               "by_tensor_block", "by_tensor_target_block",
                               "by_tensor_target_indices", "filter_tensor"]))
    tname = draw(st.sampled_from(names + ["V", "q"])) if names else "V"
    flt = [draw(st.sampled_from(names + ["V"])) for _ in
           range(draw(st.integers(1, 3)))] if names else ["V"]
    return {"sub": "dec", "terms": base["terms"], "targets": base["targets"],
            "explicit": base["explicit"], "fn": fn, "tname": tname,
            "filter": flt, "strict": draw(st.sampled_from(["low", "medium",
                                                           "high"])),
            "ignore_amplitudes": draw(st.booleans())}


def _spin_str(idx):
    return "".join(i.spin if i.spin else "n" for i in idx)


def _block(idx):
    b = "".join(i.space[0] for i in idx)
    sp = _spin_str(idx)
    return b if all(c == "n" for c in sp) else f"{b}_{sp}"


def _factors(term):
    """[(base, exponent)] of a product"""
    out = []
    for f in Mul.make_args(term):
        b, e_ = (f.args if isinstance(f, Pow) else (f, 1))
        out.append((b, int(e_) if S(e_).is_Integer else 1))
    return out


def my_key(fn, term, tname, targets):
    fac = _factors(term)
    if fn == "by_delta_types":
        k = sorted(_block(b.args) for b, e_ in fac
                   if isinstance(b, KroneckerDelta) for _ in range(e_))
        return tuple(k) or ("none",)
    if fn == "by_delta_indices":
        k = sorted("".join(str(i) for i in b.args) for b, e_ in fac
                   if isinstance(b, KroneckerDelta) for _ in range(e_))
        return tuple(k) or ("none",)
    tens = [(b, e_) for b, e_ in fac if isinstance(b, SymbolicTensor)
            and b.name == tname]
    if fn == "by_tensor_block":
        k = sorted(_block(b.idx) for b, e_ in tens for _ in range(e_))
        return tuple(k) or ("none",)
    if fn == "by_tensor_target_block":
        k = []
        for b, _ in tens:
            tt = [i for i in b.idx if i in targets]
            if not tt:
                k.append("none")
                continue
            blk = "".join(i.space[0] for i in tt)
            if any(i.spin for i in tt):
                blk += "_" + _spin_str(tt)
            k.append(blk)
        return tuple(sorted(k)) or (f"no_{tname}",)
    if fn == "by_tensor_target_indices":
        k = []
        for b, _ in tens:
            nm = "".join(i.name for i in b.idx if i in targets)
            k.append(nm or "none")
        return tuple(sorted(k)) or (f"no_{tname}",)
    raise BadCase(fn)


def keep_term(term, t_strings, strict, ignore_amplitudes):
    avail = [b.name for b, e_ in _factors(term)
             if isinstance(b, SymbolicTensor) for _ in range(e_)]
    if strict == "low":
        return all(t in avail for t in set(t_strings))
    if strict == "medium":
        a, d = Counter(avail), Counter(t_strings)
        return all(a[k] == v for k, v in d.items())
    def is_amp(n):
        import re
        return n in ("X", "Y") or re.fullmatch(r"t\d*(cc)?", n) is not None
    if ignore_amplitudes:
        req = [n for n in t_strings if is_amp(n)]
        avail = [n for n in avail if not (is_amp(n) and n not in req)]
    return Counter(avail) == Counter(t_strings)


def run_dec(case, r):
    terms = [build_term(t) for t in case["terms"]]
    expr = Add(*terms)
    if expr == 0:
        raise BadCase("zero")
    targets = tuple(sorted(syms(case["targets"]), key=idx_key))
    kw = {"target_idx": list(targets)} if case["explicit"] else {}
    e = Expr(expr, **kw)
    fn = case["fn"]
    expanded = S(e.sympy).expand()
    if fn == "filter_tensor":
        r.sample = (f"filter_tensor({e}, {case['filter']}, {case['strict']}, "
                    f"ignore_amplitudes={case['ignore_amplitudes']})")
        ok, kept = lib_call(r, fn, filter_tensor, e.copy(), case["filter"],
                            case["strict"], case["ignore_amplitudes"])
        if not ok:
            return
        kept_terms = set(Add.make_args(kept.sympy)) if kept.sympy != 0 else set()
        for t in Add.make_args(expanded):
            want = keep_term(t, case["filter"], case["strict"],
                             case["ignore_amplitudes"])
            if want != (t in kept_terms):
                r.fail("filter_tensor", f"term {t}: documented rule says "
                       f"{'keep' if want else 'drop'} for {case['filter']} "
                       f"strict={case['strict']} ignore_amplitudes="
                       f"{case['ignore_amplitudes']}")
                break
        if not kept_terms <= set(Add.make_args(expanded)):
            r.fail("filter_tensor/foreign_term", f"{kept}")
        if kept.assumptions != e.assumptions:
            r.fail("filter_tensor/assumptions", "")
        r.nontrivial = 0 < len(kept_terms) < len(Add.make_args(expanded))
        r.cls("filter_tensor", f"strict={case['strict']}")
        return
    args = (case["tname"],) if fn.startswith("by_tensor") else ()
    r.sample = f"{fn}({e}{', ' + case['tname'] if args else ''})"
    ok, parts = lib_call(r, fn, getattr(sort, fn), e.copy(), *args)
    if not ok:
        return
    total = S.Zero
    for key, sub in parts.items():
        ssub = S(getattr(sub, "sympy", sub))
        total += ssub
        for t in Add.make_args(ssub.expand()):
            if t == 0:
                continue
            tt = targets if case["explicit"] else einstein_target(t)
            mk = my_key(fn, t, case["tname"], tt)
            if mk != key:
                r.fail(f"{fn}/wrong_key", f"term {t} sits under {key}, "
                       f"documented key is {mk}")
                break
    if (total - expanded).expand() != 0:
        r.fail(f"{fn}/lossy", f"sum of parts {total} != input {expanded}")
    r.nontrivial = len(parts) >= 2
    r.cls(fn, f"keys={min(len(parts), 4)}")


# ---------------------------------------------------- (d) LazyTermMap
@st.composite
def st_tmap_case(draw):
    """An expression symmetrised by several transpositions of target indices
    and a *sequence* of symmetry requests (products of 1-3 transpositions,
    incl. cyclic products, factor +-1) on one LazyTermMap."""
    cfg = Cfg(max_obj=3, min_obj=1, max_terms=1, max_target=4, max_exp=1,
              allow_hyper=False, allow_explicit=False, allow_general=False,
              allow_symbols=False, max_slots=9, spin_modes=[False],
              names=["V", "f", "d", "t1", "t2", "X", "Y", "R", "x", "z",
                     "y"])
    base = draw(st_expr_case(cfg))
    tg = sorted(base["targets"])
    pairs = [(a, b) for a, b in itertools.combinations(tg, 2)
             if label_class(a) == label_class(b)]
    if not pairs:
        # nothing to permute: still a (trivial) request
        return {"sub": "tmap", "terms": base["terms"], "targets": tg,
                "gens": [], "queries": [], "mseed": 0}
    gens = [[*draw(st.sampled_from(pairs)), draw(st.sampled_from([1, -1]))]
            for _ in range(draw(st.integers(1, 3)))]
    queries = []
    for _ in range(draw(st.integers(1, 5))):
        n = draw(st.sampled_from([1, 1, 2, 2, 2, 3]))
        q = [list(draw(st.sampled_from(pairs))) for _ in range(n)]
        if queries and draw(st.integers(0, 2)) == 0:
            # the same product in reversed order (= the inverse permutation)
            q = [list(x) for x in reversed(queries[-1][0])]
        queries.append([q, draw(st.sampled_from([1, -1]))])
    return {"sub": "tmap", "terms": base["terms"], "targets": tg,
            "gens": gens, "queries": queries,
            "mseed": draw(st.integers(0, 2**31))}


def run_tmap(case, r):
    from adcgen.symmetry import LazyTermMap, Permutation, PermutationProduct
    tl = case["targets"]
    targets = tuple(sorted(syms(tl), key=idx_key))
    terms = [build_term(t) for t in case["terms"]]
    terms = [t for t in terms if t != 0]
    if not terms:
        raise BadCase("zero")
    expr = Add(*terms)
    for a_, b_, f in case["gens"]:
        a, b = sym(a_), sym(b_)
        expr = expr + f * rebuild(expr, {a: b, b: a})
    expr = S(expr).expand()
    if expr == 0:
        raise BadCase("vanishes")
    e = Expr(expr)
    if any(set(t.target) != set(targets) for t in e.terms):
        raise BadCase("terms with different targets")
    r.sample = f"LazyTermMap({e})[{case['queries']}]"
    ok, tm = lib_call(r, "LazyTermMap", LazyTermMap, e.copy())
    if not ok:
        return
    lib_terms = tm._terms
    m = Model(case["mseed"], 2, 3)
    vals = [evaluate(m, t.sympy, targets) for t in lib_terms]
    n_entries = 0
    cyc = False
    for q, factor in case["queries"]:
        if any(x not in tl or y not in tl or x == y or
               label_class(x) != label_class(y) for x, y in q):
            raise BadCase("bad permutation")
        key = PermutationProduct(tuple(Permutation(sym(x), sym(y))
                                       for x, y in q))
        ok, mp = lib_call(r, "LazyTermMap.getitem", tm.__getitem__,
                          (key, factor), refusals=(NotImplementedError,))
        if not ok:
            return
        if len(q) >= 2 and len({frozenset(x) for x in q}) >= 2 and \
                len(set(sum(q, []))) < 2 * len(q):
            cyc = True
        for i, j in mp.items():
            n_entries += 1
            a = vals[i]
            for p_, q_ in key:   # applied one after another
                a = np.swapaxes(a, targets.index(p_), targets.index(q_))
            if not (a == (factor * vals[j]) % P).all():
                r.fail("termmap/entry",
                       f"LazyTermMap({e}): request ({key}, {factor}) "
                       f"(sequence {case['queries']}) reports term {i} -> "
                       f"term {j}, but P*term_i != factor*term_j: "
                       f"{lib_terms[i]} vs {lib_terms[j]}")
                return
    r.nontrivial = n_entries >= 1
    r.cls("term_map", f"entries={min(n_entries, 4)}",
          f"n_requests={len(case['queries'])}")
    if cyc and n_entries:
        r.cls("term_map_cyclic_product")


def run_case(case):
    r = R()
    sub = case.get("sub")
    if sub == "symmetry":
        run_symmetry(case, r)
    elif sub == "perm":
        run_perm(case, r)
    elif sub == "dec":
        run_dec(case, r)
    elif sub == "tmap":
        run_tmap(case, r)
    else:
        raise BadCase("sub")
    return r


def strategy(tier):
    return st.one_of(st_sym_case(), st_perm_case(), st_dec_case(),
                     st_tmap_case())


def run_shard(col, shard, nshards, seed, tier):
    drive(strategy(tier), run_case, N_EXAMPLES[tier], seed * 1000 + shard,
          col)


def self_test():
    common.self_test_model()
