"""C18 - printing an expression and importing the text restores it."""
from collections import Counter

from hypothesis import strategies as st
from sympy import S, Add, Mul, Pow, Rational, sqrt, latex
from sympy.physics.secondquant import F, Fd, NO, FermionicOperator

from adcgen import Expr, import_from_sympy_latex
from adcgen.indices import Index
from adcgen.sympy_objects import (NonSymmetricTensor, SymbolicTensor,
                                  KroneckerDelta, SymmetricTensor)

from ..gen import (Cfg, st_expr_case, build_obj, build_pref, syms, sym,
                   label_class, term_label_count, BadCase, parse_label)
from ..model import Model, evaluate, idx_key, P, ModelResample
from ..runner import R, drive, lib_call
from .. import common

ID = "C18"
RULE = ("(a) Hypothesis: expanded expressions with every object kind the "
        "library prints (antisymmetric tensors, t- and ADC amplitudes, "
        "Coulomb integrals v, symbolic denominators D, NonSymmetric tensors, "
        "deltas, F/Fd operators and NO groups, spin-labelled and numbered "
        "indices, orbital-energy fractions with bracket powers and "
        "numerators, rational and sqrt prefactors) under generated "
        "assumptions (real, sym_tensors, antisym_tensors); (b) library "
        "outputs: ground-state energies/amplitudes, ISR blocks, expanded "
        "intermediates, spin-integrated expressions after expand / "
        "substitute_contracted / simplify / use_symbolic_denominators. "
        "Oracle: round trip str -> import_from_sympy_latex -> re-apply "
        "assumptions: equal value on an F_p model (operators as "
        "position-tagged tensors), equal multiset of (tensor name, class), "
        "equal re-printed text. (c) coverage-guided stage: on 2 (quick) / 4 "
        "(thorough) of the 16 shards libFuzzer (atheris, adcgen imported "
        "under atheris.instrument_imports) mutates the byte buffer that "
        "Hypothesis decodes into a case of (a) (fuzz_one_input), same "
        "oracle inside the target, seeded pseudo-random starting corpus. "
        "(d) configured tensor names: 16 (quick) / 32 (thorough) library "
        "outputs derived, printed and imported in a fresh interpreter whose "
        "package copy holds a tensor_names.json with names of different "
        "lengths; same three clauses, values compared after renaming back. "
        "Non-trivial: >= 2 object kinds and one of: "
        "fraction, spin label, numbered name, NO group, exponent.")
BUDGET = {"quick": 100, "thorough": 1500}
N_EXAMPLES = {"quick": 500, "thorough": 12000}
ASSUMPTIONS = ["free Symbols are not generated (not in the statement's list "
               "of printable objects)"]

CFG = Cfg(min_obj=1, max_obj=4, max_terms=3, max_target=3, max_exp=3,
          allow_hyper=True, allow_explicit=False, allow_general=True,
          allow_symbols=False, allow_sqrt=True, allow_ops=True,
          spin_modes=[False, False, True, "mixed"], max_slots=10,
          names=["V", "f", "d", "A", "t1", "t2", "t1cc", "X", "Y", "v", "D",
                 "x", "y", "z", "w", "delta", "F", "Fd", "p2"],
          weights={"F": 2, "Fd": 2},
          rank_override={"D": [(1, 1), (2, 2)], "p2": [(1, 1)]})

from ..gen import CATALOGUE, CAT_BY_NAME
if "D" not in CAT_BY_NAME:
    CATALOGUE.append(("S", "D", [(1, 1), (2, 2)], -1))
    CATALOGUE.append(("A", "p2", [(1, 1)], 0))
    CAT_BY_NAME["D"] = CATALOGUE[-2]
    CAT_BY_NAME["p2"] = CATALOGUE[-1]


@st.composite
def st_case(draw):
    base = draw(st_expr_case(CFG))
    fracs = []
    no_wrap = []
    for ti, t in enumerate(base["terms"]):
        for o in t["objs"]:
            o["bk"] = 0
            if o["k"] in ("F", "Fd"):
                o["exp"] = 1
        labels = sorted(term_label_count(t))
        occ = [l for l in labels if label_class(l)[0] == "occ"]
        virt = [l for l in labels if label_class(l)[0] == "virt"]
        fr = None
        if occ and virt and draw(st.integers(0, 2)) == 0:
            brs = []
            for _ in range(draw(st.integers(1, 2))):
                no = draw(st.integers(1, min(2, len(occ))))
                nv = draw(st.integers(1, min(2, len(virt))))
                brs.append({"occ": list(draw(st.permutations(occ)))[:no],
                            "virt": list(draw(st.permutations(virt)))[:nv],
                            "sign": draw(st.sampled_from([1, -1])),
                            "exp": draw(st.sampled_from([1, 1, 2]))})
            num = []
            if draw(st.integers(0, 2)) == 0:
                num = [[draw(st.sampled_from(occ)), 1],
                       [draw(st.sampled_from(virt)), -1]]
            fr = {"brackets": brs, "num": num}
        fracs.append(fr)
        nops = sum(1 for o in t["objs"] if o["k"] in ("F", "Fd"))
        if nops >= 2 and draw(st.booleans()):
            start = draw(st.integers(0, nops - 2))
            no_wrap.append([ti, start, draw(st.integers(2, nops - start))])
    names = {o["name"] for t in base["terms"] for o in t["objs"]}
    square = {}
    for t in base["terms"]:
        for o in t["objs"]:
            if o["k"] in ("A", "S"):
                sq = len(o["u"]) == len(o["l"])
                square[o["name"]] = square.get(o["name"], True) and sq
    sym_t = [n for n in ("v", "A", "d") if square.get(n) and
             draw(st.integers(0, 2)) == 0]
    if "v" in names and square.get("v") and "v" not in sym_t and \
            draw(st.booleans()):
        sym_t.append("v")
    antisym_t = ["D"] if square.get("D") else []
    return {"sub": "gen", "terms": base["terms"], "targets": base["targets"],
            "spin": base["spin"], "fracs": fracs, "no_wrap": no_wrap,
            "real": draw(st.booleans()), "sym_tensors": sym_t,
            "antisym_tensors": antisym_t,
            "mseed": draw(st.integers(0, 2**31))}


def strategy(tier):
    return st_case()


def e_(lbl):
    return NonSymmetricTensor("e", (sym(lbl),))


def build_term18(t, fr, wraps):
    res = build_pref(t)
    ops = []
    for o in t["objs"]:
        if o["k"] in ("F", "Fd"):
            ops.append(build_obj(o))
        else:
            res = res * build_obj(o)
    k = 0
    wraps = sorted(wraps)
    while k < len(ops):
        w = next((w_ for w_ in wraps if w_[0] == k), None)
        if w:
            inner = Mul(*ops[k:k + w[1]])
            if not isinstance(inner, Mul) or \
                    any(isinstance(a, Pow) for a in inner.args):
                # the same operator twice in a row is a sympy Pow, which
                # sympy's NO cannot hold (AttributeError '_sortkey')
                raise BadCase("power of an operator inside NO")
            res = res * NO(inner)
            k += w[1]
        else:
            res = res * ops[k]
            k += 1
    if fr:
        if fr["num"]:
            res = res * Add(*[c * e_(l) for l, c in fr["num"]])
        for b in fr["brackets"]:
            br = b["sign"] * (Add(*[e_(l) for l in b["occ"]])
                              - Add(*[e_(l) for l in b["virt"]]))
            res = res / Pow(br, b["exp"])
    return res


def tag_operators(expr):
    """replace operators (also inside NO) by position tagged tensors"""
    out = S.Zero
    for t in Add.make_args(S(expr).expand()):
        k = 0
        g = 0
        res = S.One
        for f in Mul.make_args(t):
            if isinstance(f, Pow) and isinstance(f.args[0],
                                                 (F, Fd, NO)):
                raise BadCase("power of an operator")
            if isinstance(f, (F, Fd)):
                res *= NonSymmetricTensor(
                    f"op{k}{'Fd' if isinstance(f, Fd) else 'F'}",
                    (f.args[0],))
                k += 1
            elif isinstance(f, NO):
                g += 1
                for op in Mul.make_args(f.args[0]):
                    if not isinstance(op, (F, Fd)):
                        raise BadCase("unexpected NO content")
                    res *= NonSymmetricTensor(
                        f"op{k}{'Fd' if isinstance(op, Fd) else 'F'}no{g}",
                        (op.args[0],))
                    k += 1
            else:
                res *= f
        out += res
    return out


def kinds(expr):
    c = Counter()
    for t in S(expr).atoms(SymbolicTensor):
        c[(t.name, type(t).__name__)] += 0
    return set(c)


def has_number_times_bracket_denominator(expr):
    """a term with a rational coefficient p/q (q != 1) and an explicit
    bracket denominator is printed as \\frac{..}{q (bracket)}"""
    for t in Add.make_args(S(expr)):
        coeff = t.as_coeff_Mul()[0]
        q = coeff.q if coeff.is_Rational else 1
        for f in Mul.make_args(t):
            if f.is_number and not f.is_Rational:
                # e.g. sqrt(2)/2
                q = max(q, 2) if S(f).as_numer_denom()[1] != 1 else q
        has_br = any(isinstance(f, Pow) and isinstance(f.args[0], Add) and
                     f.args[1].is_negative for f in Mul.make_args(t))
        if has_br and q != 1:
            return True
    return False


def roundtrip(r, e, targets, spin, mseed, tag="", include_known=False):
    text = str(e)
    kw = dict(real=e.real, sym_tensors=list(e.sym_tensors) or None,
              antisym_tensors=list(e.antisym_tensors) or None)
    ok, back = lib_call(r, f"import{tag}", import_from_sympy_latex, text)
    if not ok:
        return
    ok, back = lib_call(r, f"reassume{tag}", Expr, back.sympy, **kw)
    if not ok:
        return
    k0, k1 = kinds(e.sympy), kinds(back.sympy)
    if k0 != k1:
        r.fail(f"kinds{tag}", f"{text}: tensor kinds changed: "
               f"{sorted(k0 - k1)} -> {sorted(k1 - k0)}")
        return
    if str(back) != text:
        # known finding F16: 'q * (bracket)' in a printed denominator is
        # imported as the distributed sum q*e_a + q*e_b ... (same value,
        # different text); terms of that shape are excluded from the reprint
        # clause only
        if has_number_times_bracket_denominator(e.sympy) and \
                not include_known:
            r.excluded.append("F16_reprint_number_times_bracket_denominator")
        elif has_number_times_bracket_denominator(e.sympy):
            r.fail(f"reprint_F16class{tag}", f"{text}  ->  {back}")
        else:
            r.fail(f"reprint{tag}", f"{text}  ->  {back}")
    # value
    a, b = tag_operators(e.sympy), tag_operators(back.sympy)
    sizes = [(1, 1)] if spin else [(2, 2)]
    for k, (no, nv) in enumerate(sizes):
        for attempt in range(3):
            m = Model(mseed + k + 17 * attempt, no, nv, spin=spin)
            for n in e.sym_tensors:
                m.bk[n] = 1
            for n in e.antisym_tensors:
                m.bk[n] = -1
            try:
                v0 = evaluate(m, a, targets)
                v1 = evaluate(m, b, targets)
            except ModelResample:
                r.resampled += 1
                continue
            if not (v0 == v1).all():
                r.fail(f"value{tag}", f"{text}  ->  {back}")
            break


def run_gen(case, r):
    targets = tuple(sorted(syms(case["targets"]), key=idx_key))
    terms = []
    for ti, t in enumerate(case["terms"]):
        wraps = [(w[1], w[2]) for w in case["no_wrap"] if w[0] == ti]
        terms.append(build_term18(t, case["fracs"][ti], wraps))
    terms = [t for t in terms if t != 0]
    if not terms:
        raise BadCase("zero")
    expr = Add(*terms)
    has_ops = bool(S(expr).atoms(FermionicOperator))
    kw = dict(real=case["real"], sym_tensors=case["sym_tensors"] or None,
              antisym_tensors=case["antisym_tensors"] or None)
    e = Expr(expr, **kw)
    if not any(case["fracs"]):
        e = e.expand()
    if e.sympy == 0:
        raise BadCase("zero")
    r.sample = f"{e}  [{kw}]"
    all_idx = S(e.sympy).atoms(Index)
    spin = any(i.spin for i in all_idx)
    # free indices for the value comparison: everything that occurs once,
    # simpler: compare as full tensors over the case targets
    roundtrip(r, e, targets, spin, case["mseed"],
              include_known=case.get("include_known", False))
    kinds_present = {o["k"] for t in case["terms"] for o in t["objs"]}
    feats = []
    if any(case["fracs"]):
        feats.append("fraction")
    if spin:
        feats.append("spin")
    if any(i.name[1:] for i in all_idx):
        feats.append("numbered")
    if case["no_wrap"]:
        feats.append("NO")
    if any(o["exp"] > 1 for t in case["terms"] for o in t["objs"]):
        feats.append("exponent")
    r.nontrivial = len(kinds_present) >= 2 and bool(feats)
    r.cls("generated", *feats)
    if has_ops:
        r.cls("operators")


# ------------------------------------------------------ library outputs
def library_pool():
    """(name, thunk) pairs producing Expr objects from the derivation and
    transformation API"""
    from adcgen import (Operators, GroundState, IntermediateStates,
                        SecularMatrix, Properties, Intermediates, simplify,
                        transform_to_spatial_orbitals)

    def gs(variant="mp"):
        return GroundState(Operators(variant))

    def isr(v):
        return IntermediateStates(gs(), v)
    pool = [
        ("energy2", lambda: Expr(gs().energy(2))),
        ("energy3_real", lambda: Expr(gs().energy(3), real=True)),
        ("re_energy2", lambda: Expr(gs("re").energy(2))),
        ("mp_amplitude_2_ph", lambda: Expr(gs().mp_amplitude(2, "ph", "ia"))),
        ("mp_amplitude_2_pphh",
         lambda: Expr(gs().mp_amplitude(2, "pphh", "i2j1a1b"))),
        ("re_residual_2", lambda: Expr(gs("re").amplitude_residual(
            2, "pphh", "ijab"), real=True)),
        ("psi1", lambda: Expr(gs().psi(1, "ket"))),
        ("psi2_bra", lambda: Expr(gs().psi(2, "bra"))),
        ("expectation_value_2", lambda: Expr(gs().expectation_value(2, 1))),
        ("precursor_1", lambda: Expr(isr("pp").precursor(1, "ph", "ket",
                                                         "ia"))),
        ("isr_1_pphh", lambda: Expr(isr("pp").intermediate_state(
            1, "pphh", "bra", "ijab"))),
        ("overlap_2", lambda: Expr(isr("pp").overlap_isr(2, "ph,ph",
                                                         "ia,jb"))),
        ("m_ph_ph_1", lambda: Expr(SecularMatrix(isr("pp")).isr_matrix_block(
            1, "ph,ph", "ia,jb"), real=True)),
        ("m_ip_2", lambda: Expr(SecularMatrix(isr("ip")).isr_matrix_block(
            2, "h,h", "i,j"), real=True)),
        ("m_ph_pphh", lambda: Expr(SecularMatrix(isr("pp")).isr_matrix_block(
            1, "ph,pphh", "ia,jkbc"))),
        ("mvp_1", lambda: Expr(SecularMatrix(isr("pp")).mvp_block_order(
            1, "ph", "ph,ph", "ia"), real=True)),
        ("trans_moment_1", lambda: Expr(Properties(isr("pp"))
                                        .trans_moment_space(1, "ph"))),
        ("expec_1", lambda: Expr(Properties(isr("pp"))
                                 .expec_block_contribution(1, "ph,ph", 1))),
        ("t2_2_expanded", lambda: Intermediates().available["t2_2"]
         .expand_itmd("ijab", fully_expand=True)),
        ("t1_2_once", lambda: Intermediates().available["t1_2"]
         .expand_itmd("i2a1", fully_expand=False)),
        ("p0_2_oo", lambda: Intermediates().available["p0_2_oo"]
         .expand_itmd("ij")),
        ("t2eri_1", lambda: Intermediates().available["t2eri_1"]
         .expand_itmd("ijka", fully_expand=False)),
        ("symbolic_denoms", lambda: Intermediates().available["t2_2"]
         .expand_itmd("ijab").expand().use_symbolic_denominators()),
        ("spatial_t2_1", lambda: transform_to_spatial_orbitals(
            Expr(Intermediates().available["t2_1"].expand_itmd(
                "ijab", return_sympy=True), real=True, target_idx="ijab"),
            "ijab", "abab")),
        ("spatial_energy2_restricted", lambda: transform_to_spatial_orbitals(
            Expr(gs().energy(2), real=True).expand(), "", "",
            restricted=True)),
        ("spatial_m_ph_ph_1", lambda: transform_to_spatial_orbitals(
            Expr(SecularMatrix(isr("pp")).isr_matrix_block(
                1, "ph,ph", "ia,jb"), real=True).expand(), "iajb", "aabb")),
    ]
    return pool


def run_lib(case, r):
    from adcgen import simplify
    pool = dict(library_pool())
    if case["name"] not in pool:
        raise BadCase("unknown pool entry")
    ok, e = lib_call(r, "derive", pool[case["name"]])
    if not ok:
        return
    if not isinstance(e, Expr):
        e = Expr(e)
    post = case["post"]
    has_ops = bool(S(e.sympy).atoms(FermionicOperator, NO))
    try:
        if post == "expand":
            e = e.expand()
        elif post == "substitute_contracted" and not has_ops:
            e = e.expand().substitute_contracted()
        elif post == "simplify" and not has_ops and \
                not any(isinstance(x, Pow) and x.args[1].is_negative and
                        isinstance(x.args[0], Add)
                        for x in S(e.sympy).atoms(Pow)):
            e = simplify(e.expand())
        elif post == "symbolic" and not has_ops:
            e = e.expand().use_symbolic_denominators()
        else:
            e = e.expand()
    except Exception as exc:
        raise BadCase(f"post processing failed: {exc!r}")
    if e.sympy == 0:
        raise BadCase("zero")
    # known finding F17: Wick contractions of general indices create
    # anonymous indices named 'i' / 'a'; a raw derivation result can hold
    # two different indices with one name in a term, its text is ambiguous
    for t in Add.make_args(S(e.sympy)):
        seen = {}
        for i in t.atoms(Index):
            if seen.setdefault((i.name, i.spin), i) is not i:
                if not case.get("include_known"):
                    r.excluded.append("F17_distinct_indices_with_one_name")
                    r.sample = f"(excluded) [{case['name']} / {post}]"
                    return
    r.sample = f"[{case['name']} / {post}] {str(e)[:300]}"
    idx = S(e.sympy).atoms(Index)
    spin = any(i.spin for i in idx)
    # free indices: those of the request
    targets = tuple(sorted(syms(case["targets"]), key=idx_key)) \
        if not spin else tuple(sorted(
            (i for i in idx if i.name in
             [parse_label(t)[0] for t in case["targets"]]), key=idx_key))
    roundtrip(r, e, targets, spin, case["mseed"], tag="/lib",
              include_known=case.get("include_known", False))
    r.nontrivial = True
    r.cls("library_output", f"post={post}")


LIB_TARGETS = {
    "mp_amplitude_2_ph": ["i", "a"], "mp_amplitude_2_pphh": ["i2", "j1", "a1", "b"],
    "re_residual_2": ["i", "j", "a", "b"], "precursor_1": ["i", "a"],
    "isr_1_pphh": ["i", "j", "a", "b"], "overlap_2": ["i", "a", "j", "b"],
    "m_ph_ph_1": ["i", "a", "j", "b"], "m_ip_2": ["i", "j"],
    "m_ph_pphh": ["i", "a", "j", "k", "b", "c"], "mvp_1": ["i", "a"],
    "t2_2_expanded": ["i", "j", "a", "b"], "t1_2_once": ["i2", "a1"],
    "p0_2_oo": ["i", "j"], "t2eri_1": ["i", "j", "k", "a"],
    "symbolic_denoms": ["i", "j", "a", "b"], "spatial_t2_1": ["i", "j", "a", "b"],
    "spatial_m_ph_ph_1": ["i", "a", "j", "b"],
}


def lib_cases():
    out = []
    for k, (name, _) in enumerate(library_pool()):
        for post in ("expand", "substitute_contracted", "simplify",
                     "symbolic"):
            out.append({"sub": "lib", "name": name, "post": post,
                        "targets": LIB_TARGETS.get(name, []), "mseed": k})
    return out


# ------------------------------------- configured tensor names (stage d)
CONF_REQ = ["sym_denoms", "m_ph_ph_2", "expand_density", "energy2",
            "mp_amp_2_ph", "p0_2_oo", "t2_2", "tm_2", "expec_block_1",
            "mvp_1", "m_ip_2", "t1_2_once", "expec_2", "re_energy2",
            "mp_amp_1_pphh", "overlap_pre_2"]


def run_conf(case, r):
    """round trip of a library output in a fresh interpreter whose package
    copy (scratch directory, removed afterwards) holds a generated
    tensor_names.json"""
    from . import c19
    conf = {"A": c19.CONF_A, "B": c19.CONF_B}.get(case["conf"])
    if conf is None or case["request"] not in CONF_REQ:
        raise BadCase("unknown configuration case")
    pp = c19.package_copy(conf)
    job = {"request": case["request"], "history": [], "simplify": False,
           "roundtrip": True, "names_back": c19.names_back_map(conf),
           "adcgen_root": pp}
    got, err = c19.run_worker(job, 0, pp)
    r.sample = f"[{case['request']} under tensor names {conf}]"
    if got is None:
        r.fail("conf/worker_failed", f"{r.sample}: {err}")
        return
    rt = got.get("roundtrip") or {}
    r.sample += " " + str(rt.get("text"))[:200]
    if rt.get("error"):
        r.fail("conf/exception", f"{r.sample}: {rt['error']}\n"
               f"{rt.get('trace')}")
        return
    if rt.get("kinds"):
        r.fail("conf/kinds", f"{r.sample}: tensor kinds changed: "
               f"{rt['kinds']}")
    if rt.get("reprint") is not None:
        r.fail("conf/reprint", f"{r.sample} -> {rt['reprint']}")
    if rt.get("fp") != got.get("fp"):
        r.fail("conf/value", f"{r.sample}: fingerprints {got.get('fp')} -> "
               f"{rt.get('fp')}")
    r.nontrivial = True
    r.cls("configured_names", f"conf={case['conf']}")


def run_case(case):
    r = R()
    if case.get("sub") == "conf":
        run_conf(case, r)
    elif case.get("sub") == "lib":
        run_lib(case, r)
    else:
        run_gen(case, r)
    return r


def run_shard(col, shard, nshards, seed, tier):
    cases = lib_cases()
    step = 1 if tier == "thorough" else 2
    mine = cases[shard::nshards][::step]
    for c in mine:
        col.run(c, run_case)
    for k in range(shard, 2 * len(CONF_REQ), nshards):
        if tier == "quick" and k >= len(CONF_REQ):
            break
        conf = "A" if (k // len(CONF_REQ) + k) % 2 == 0 else "B"
        col.run({"sub": "conf", "request": CONF_REQ[k % len(CONF_REQ)],
                 "conf": conf}, run_case)
    if getattr(col, "atheris", False):
        # coverage-guided stage (thorough tier, 4 of 16 shards): does not
        # return, the collector is written by col.finish()
        from ..runner import drive_atheris
        col.classes["atheris_shards"] += 1
        col.extra = {"library_outputs_run": len(mine)}
        drive_atheris(strategy(tier), run_case, col, seed * 1000 + shard)
    drive(strategy(tier), run_case, N_EXAMPLES[tier], seed * 1000 + shard,
          col)
    return {"library_outputs_run": len(mine)}


def self_test():
    common.self_test_model()
