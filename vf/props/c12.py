"""C12 - registered intermediate definitions equal the quantities they
name."""
import itertools
import re

import numpy as np
from hypothesis import strategies as st
from sympy import S

from adcgen import Expr, Operators, GroundState, Intermediates
from adcgen.indices import get_symbols, Index
from adcgen.sympy_objects import (AntiSymmetricTensor, SymmetricTensor,
                                  NonSymmetricTensor, Amplitude)

from ..gen import BadCase, ALPHABET
from ..model import Model, evaluate, P, ModelResample, idx_key
from ..rspt import Hamiltonian, RSPT, density_series
from ..runner import R, drive, lib_call
from .. import common, fock
from .c15 import spin_model

ID = "C12"
RULE = ("Fixed: every amplitude / density intermediate fully expanded with "
        "index names from k..o / c..g (the names definitions use for their "
        "own contracted indices), 3 rotations; Hypothesis draws (registered "
        "intermediate name, index tuple with "
        "generated admissible names in generated order, fully/once expanded, "
        "model size, seed, clause). value clause: t-amplitudes vs. RSPT "
        "wavefunction coefficients for every index assignment (lower "
        "amplitudes := RSPT arrays when once expanded); density blocks vs. "
        "[lambda^n] <Psi|a+_p a_q|Psi>/<Psi|Psi>; RE residuals vs. the "
        "derived residual on random off-shell real models; composite "
        "integral-amplitude intermediates: fully == once expanded, "
        "t2eri_A/B == their stated combination. symmetry clause: the "
        "evaluated definition has every permutational (anti)symmetry of the "
        "tensor returned by .tensor(). spin clause: on a spin-structured "
        "spin-conserving model the definition vanishes on every spin block "
        "not in allowed_spin_blocks. Non-trivial: order >= 2, or rank >= 3, "
        "or a permuted / numbered index tuple; non-zero reference.")
BUDGET = {"quick": 120, "thorough": 2400}
N_EXAMPLES = {"quick": 30, "thorough": 400}
ASSUMPTIONS = ["composite t2eri_*/t2sq intermediates have no independent "
               "specification offline: consistency and declared symmetry "
               "only"]

ITM = Intermediates().available
T_AMPL = {"t2_1": (1, 2), "t1_2": (2, 1), "t2_2": (2, 2), "t3_2": (2, 3),
          "t4_2": (2, 4), "t1_3": (3, 1), "t2_3": (3, 2)}
DENS = {"p0_2_oo": 2, "p0_2_vv": 2, "p0_3_oo": 3, "p0_3_ov": 3, "p0_3_vv": 3}
RESID = {"t2_1_re_residual": (1, "pphh"), "t1_2_re_residual": (2, "ph"),
         "t2_2_re_residual": (2, "pphh")}
MISC = ["t2eri_1", "t2eri_2", "t2eri_3", "t2eri_4", "t2eri_5", "t2eri_6",
        "t2eri_7", "t2eri_A", "t2eri_B", "t2sq"]
_RE = {}


@st.composite
def st_case(draw, tier):
    names = list(T_AMPL) * 2 + list(DENS) + list(RESID) + MISC
    if tier == "quick":
        names = [n for n in names if n not in ("t4_2",)] + ["t2_1", "t2_2"]
    name = draw(st.sampled_from(names))
    default = ITM[name].default_idx
    # generated index names with the same space pattern
    used = {"occ": [], "virt": []}
    idx = []
    perm = {sp: list(draw(st.permutations(list(ALPHABET[sp]))))
            for sp in ("occ", "virt")}
    numbered = draw(st.integers(0, 3)) == 0
    for d in default:
        sp = "occ" if d in ALPHABET["occ"] else "virt"
        nm = perm[sp].pop()
        if numbered:
            nm += str(draw(st.sampled_from([1, 2])))
        idx.append(nm)
    clause = draw(st.sampled_from(["value", "value", "symmetry", "spin"]))
    return {"name": name, "idx": idx, "fully": draw(st.booleans()),
            "clause": clause,
            "size": draw(st.sampled_from([[2, 2], [3, 2], [2, 3], [3, 3]])),
            "mseed": draw(st.integers(0, 2**31))}


def strategy(tier):
    return st_case(tier)


def hf_model(case, order, attempt, size=None, amplitudes=True):
    no, nv = size or case["size"]
    m = Model(case["mseed"] + 1000 * attempt, no, nv)
    ham = Hamiltonian(m, "mp", canonical=True)
    pt = RSPT(ham, order)
    if amplitudes:
        pt.install_amplitudes()
    return m, pt


def with_retry(fn):
    for attempt in range(4):
        try:
            return fn(attempt)
        except ModelResample:
            continue
    raise ModelResample("no regular model")


def declared_symmetry_ok(r, name, tensor, val, tgt):
    """val over tgt has the symmetry of the tensor object"""
    if isinstance(tensor, NonSymmetricTensor):
        return
    anti = not isinstance(tensor, SymmetricTensor)
    upper, lower = list(tensor.upper), list(tensor.lower)
    if tensor.could_extract_minus_sign():
        pass
    for grp in (upper, lower):
        for a, b in itertools.combinations(grp, 2):
            if a.space != b.space:
                continue
            vs = np.swapaxes(val, tgt.index(a), tgt.index(b))
            exp = (-val if anti else val) % P
            if not (vs % P == exp).all():
                r.fail("declared_symmetry", f"{name}: the definition is not "
                       f"{'anti' if anti else ''}symmetric under "
                       f"{a}<->{b} although {tensor} declares it")
                return
    bk = int(tensor.bra_ket_sym)
    if bk and len(upper) == len(lower) and \
            [s.space for s in upper] == [s.space for s in lower]:
        perm = list(range(len(tgt)))
        for a, b in zip(upper, lower):
            ia, ib = tgt.index(a), tgt.index(b)
            perm[ia], perm[ib] = ib, ia
        vs = np.transpose(val, perm)
        if not (vs % P == (bk * val) % P).all():
            r.fail("declared_symmetry", f"{name}: bra-ket symmetry {bk} of "
                   f"{tensor} does not hold for the definition")


def run_case(case):
    r = R()
    name = case["name"]
    if name not in ITM:
        raise BadCase("unknown intermediate")
    itmd = ITM[name]
    idx = case["idx"]
    idx_str = "".join(idx)
    tgt = tuple(get_symbols(idx))
    fully = case["fully"]
    clause = case["clause"]
    order = itmd.order
    rank = len(tgt)
    r.sample = (f"Intermediates().available['{name}'].expand_itmd('{idx_str}'"
                f", fully_expand={fully})  [{clause}]")
    size = list(case["size"])
    if name == "t3_2" or (name in ("t1_3", "t2_3", "p0_3_ov") and fully):
        size = [3, 3]
    if name == "t4_2":
        size = [4, 4]
    nz = False
    if clause == "spin":
        if rank > 4 or name in RESID:
            # the residuals contain the Fock matrix, for which the library
            # knows no spin blocks (documented: closed expressions only)
            raise BadCase("spin clause only for rank <= 4 definitions")
        ok, blocks = lib_call(r, "allowed_spin_blocks",
                              lambda: itmd.allowed_spin_blocks)
        ok2, ex = lib_call(r, "expand_itmd", itmd.expand_itmd, idx_str,
                           True, True)
        if not (ok and ok2):
            return r
        if rank > 4 or name in RESID:
            raise BadCase("spin clause only for rank <= 4 definitions")
        m = spin_model(case["mseed"], 2 if rank > 2 else 1,
                       2 if rank > 2 else 1)
        e_arr = m.rand_array((m.N,), "orbital_energies")
        m.set_tensor("e", 0, 1, e_arr, kind="nonsym")
        f = np.diag(e_arr) % P
        m.set_tensor("f", 1, 1, f, kind="anti", bk=1)
        try:
            val = evaluate(m, Expr(ex, real=True).expand().sympy, tgt)
        except ModelResample:
            r.resampled += 1
            return r
        for spins in itertools.product("ab", repeat=rank):
            s_ = "".join(spins)
            if s_ in blocks:
                continue
            tg_s = get_symbols(idx, s_)
            sel = [[m.positions(t).index(x) for x in m.positions(ts)]
                   for t, ts in zip(tgt, tg_s)]
            if (val[np.ix_(*sel)] != 0).any():
                r.fail("spin_block", f"{name}: spin block {s_} is not in "
                       f"allowed_spin_blocks {blocks} but the definition "
                       "does not vanish there")
                break
        nz = bool((val != 0).any())
        r.nontrivial = nz and len(blocks) < 2 ** rank
        r.cls("spin", name)
        return r

    ok, ex = lib_call(r, "expand_itmd", itmd.expand_itmd, idx_str, True,
                      fully)
    if not ok:
        return r
    ex = Expr(ex, real=True).expand().sympy

    if clause == "symmetry":
        def go(attempt):
            m, pt = hf_model(case, max(order, 1), attempt, size)
            if name in RESID:
                randomise_offshell(m)
            return m, evaluate(m, ex, tgt)
        m, val = with_retry(go)
        ok, T = lib_call(r, "tensor", itmd.tensor, idx_str, True)
        if ok:
            if T.could_extract_minus_sign():
                T = -T
            declared_symmetry_ok(r, name, T, val, tgt)
        r.nontrivial = bool((val != 0).any()) and rank >= 2
        r.cls("symmetry", name)
        return r

    # ---- value clause
    if name in T_AMPL:
        n, k = T_AMPL[name]

        def go(attempt):
            m, pt = hf_model(case, n, attempt, size)
            return m, pt, evaluate(m, ex, tgt)
        m, pt, val = with_retry(go)
        if k > min(m.no, m.nv):
            raise BadCase("model too small")
        full = pt.amplitude_array(n, k) if m.N ** (2 * k) <= 2_000_000 \
            else None
        if full is None:
            raise BadCase("amplitude array too large")
        occ = [s for s in tgt if s.space == "occ"]
        virt = [s for s in tgt if s.space == "virt"]
        blk = full[np.ix_(*[m.positions(s) for s in virt + occ])]
        # reorder axes (virt..., occ...) -> order of tgt
        src = virt + occ
        ref = np.transpose(blk, [src.index(s) for s in tgt])
        nz = bool((ref != 0).any())
        if not (val == ref).all():
            r.fail("t_amplitude", f"{name}('{idx_str}', fully_expand={fully})"
                   f" on model {size}: {int((val != ref).sum())} of "
                   f"{ref.size} elements differ from the RSPT wavefunction "
                   "coefficients")
    elif name in DENS:
        n = DENS[name]

        def go(attempt):
            m, pt = hf_model(case, n, attempt, size)
            return m, pt, evaluate(m, ex, tgt)
        m, pt, val = with_retry(go)
        D = density_series(pt, m.N)[n]
        ref = D[np.ix_(*[m.positions(s) for s in tgt])]
        nz = bool((ref != 0).any())
        if not (val == ref).all() and not (val == ref.T).all():
            r.fail("mp_density", f"{name}('{idx_str}', fully_expand={fully}) "
                   f"on model {size}: differs from the order-{n} density "
                   "block")
    elif name in RESID:
        n, space = RESID[name]
        if "re" not in _RE:
            _RE["re"] = GroundState(Operators("re"))
        ok, der = lib_call(r, "amplitude_residual",
                           _RE["re"].amplitude_residual, n, space, idx_str)
        if not ok:
            return r
        der = Expr(der, real=True).expand().sympy
        m = Model(case["mseed"], *case["size"])
        randomise_offshell(m)
        v1, v2 = evaluate(m, ex, tgt), evaluate(m, der, tgt)
        nz = bool((v2 != 0).any())
        if not (v1 == v2).all():
            r.fail("re_residual", f"{name}('{idx_str}') differs from "
                   f"GroundState(re).amplitude_residual({n}, '{space}', "
                   f"'{idx_str}') on a random real model")
    else:
        # composite intermediates: fully vs once expanded
        ok, other = lib_call(r, "expand_itmd_other", itmd.expand_itmd,
                             idx_str, True, not fully)
        if not ok:
            return r
        other = Expr(other, real=True).expand().sympy
        if name in ("t2eri_A", "t2eri_B"):
            # once expanded they refer to t2eri1/2/6/7 tensors: insert their
            # definitions through the library's own expansion
            def full(x):
                return Expr(x, real=True, target_idx=list(tgt)) \
                    .expand_intermediates(fully_expand=True).expand().sympy
            ok, pair = lib_call(r, "expand_intermediates",
                                lambda: (full(ex), full(other)))
            if not ok:
                return r
            ex, other = pair

        def go(attempt):
            m, pt = hf_model(case, 1, attempt, size)
            return m, evaluate(m, ex, tgt), evaluate(m, other, tgt)
        m, v1, v2 = with_retry(go)
        nz = bool((v1 != 0).any())
        if not (v1 == v2).all():
            r.fail("composite_consistency", f"{name}('{idx_str}'): fully and "
                   "once expanded definitions differ in value")
        if name in ("t2eri_A", "t2eri_B") and not r.fails:
            i0, i1, i2, i3 = idx
            if name == "t2eri_A":
                parts = [(ITM["t2eri_1"], [i0, i1, i2, i3], 1, 2),
                         (ITM["t2eri_2"], [i0, i1, i2, i3], 1, 1),
                         (ITM["t2eri_2"], [i1, i0, i2, i3], -1, 1)]
            else:
                parts = [(ITM["t2eri_6"], [i0, i1, i2, i3], -1, 2),
                         (ITM["t2eri_7"], [i0, i1, i2, i3], 1, 1),
                         (ITM["t2eri_7"], [i0, i1, i3, i2], -1, 1)]
            tot = np.zeros_like(v1)
            from ..model import inv
            for it, ix, sg, den in parts:
                px = Expr(it.expand_itmd("".join(ix), True, True),
                          real=True).expand().sympy
                tot = (tot + sg * inv(den) * evaluate(m, px, tgt)) % P
            if not (tot == v1).all():
                r.fail("composite_definition", f"{name}('{idx_str}') is not "
                       "the stated combination of the lower intermediates")
    r.nontrivial = nz and (order >= 2 or rank >= 3 or
                           list(idx) != list(itmd.default_idx))
    r.cls("value", name, "fully" if fully else "once")
    return r


def randomise_offshell(m):
    """random real model: symmetric f (incl. f_ov), random amplitudes"""
    m.bk["V"] = m.bk["f"] = 1
    m.full_tensor("V", 2, 2, "anti", 1)
    m.full_tensor("f", 1, 1, "anti", 1)
    for n in (1, 2, 3):
        m.alias[f"t{n}cc"] = f"t{n}"


def fixed_cases():
    """every amplitude / density intermediate fully expanded with index
    names from the range that definitions use for their own contracted
    indices (k..o, c..g), three rotations each"""
    occ_pool, virt_pool = list("lmnko"), list("decfg")
    out = []
    for name in [n for n in list(T_AMPL) + list(DENS) if n != "t4_2"]:
        default = ITM[name].default_idx
        for rot in range(3):
            occ = occ_pool[rot:] + occ_pool[:rot]
            virt = virt_pool[rot:] + virt_pool[:rot]
            idx = [(occ if d in ALPHABET["occ"] else virt).pop(0)
                   for d in default]
            out.append({"name": name, "idx": idx, "fully": True,
                        "clause": "value",
                        "size": [3, 3] if len(idx) >= 6 else [2, 2],
                        "mseed": 100 + rot})
    return out


def run_shard(col, shard, nshards, seed, tier):
    for case in fixed_cases()[shard::nshards]:
        col.run(case, run_case)
    drive(strategy(tier), run_case, N_EXAMPLES[tier], seed * 1000 + shard,
          col)


SHRINK = False


def self_test():
    common.self_test_model()
    fock.self_test()
