"""C07 - simplify preserves the value and merges alpha-equivalent terms."""
import copy

from hypothesis import strategies as st
from sympy import Rational, S

from adcgen import Expr, simplify
from adcgen.sympy_objects import NonSymmetricTensor

from ..gen import (Cfg, st_expr_case, build_term, build_pref, rename_term,
                   term_label_count, label_class, parse_label, st_names,
                   syms, sort_labels, BadCase, CATALOGUE)
from ..model import Model, evaluate, einstein_target, idx_key
from ..runner import R, drive, lib_call
from .. import common

ID = "C07"
RULE = ("Hypothesis-generated sums of tensor products (1-3 base terms sharing "
        "their free indices, each with 0-2 alpha-equivalent variants built by "
        "renaming contracted labels / reordering slots inside declared "
        "symmetric groups, rational coefficients incl. cancellation, plus "
        "unrelated re-wirings of the same tensor multiset); oracle: value in "
        "F_p on 2 random tensor models + term-count bound + unchanged "
        "assumptions/targets. Non-trivial: >= 2 input terms share their "
        "multiset of tensor names. Distinct: hash of the case description.")
BUDGET = {"quick": 75, "thorough": 1200}
N_EXAMPLES = {"quick": 1200, "thorough": 20000}
ASSUMPTIONS = ["tensor model over F_p (p=16777199) with only the declared "
               "symmetries; evaluator validated against brute-force loops"]

CFG = Cfg(max_obj=4, max_terms=3, max_target=4, allow_hyper=True,
          max_slots=12)


@st.composite
def st_variant(draw, term, targets, numbered):
    """alpha-equivalent variant: bijective renaming of contracted labels
    inside their (space, spin) class + slot reorderings with sign."""
    cnt = term_label_count(term)
    contracted = [l for l in cnt if l not in targets]
    mapping = {}
    by_cls = {}
    for l in contracted:
        by_cls.setdefault(label_class(l), []).append(l)
    for c, labels in sorted(by_cls.items()):
        taken = {parse_label(t)[0] for t in targets if label_class(t) == c}
        cand = draw(st_names(c[0], len(labels) + len(taken), numbered))
        new = [x for x in cand if x not in taken][:len(labels)]
        for old, nm in zip(sorted(labels), new):
            mapping[old] = f"{nm}:{c[1]}" if c[1] else nm
    var = rename_term(term, mapping)
    sign = 1
    for o in var["objs"]:
        if o["k"] not in ("A", "T", "S"):
            continue
        for grp in ("u", "l"):
            n = len(o[grp])
            if n >= 2:
                perm = draw(st.permutations(range(n)))
                o[grp] = [o[grp][k] for k in perm]
                if o["k"] != "S":
                    from ..model import perm_sign
                    if o["exp"] % 2:
                        sign *= perm_sign(perm)
        if o.get("bk", 0) and len(o["u"]) == len(o["l"]) and draw(st.booleans()):
            o["u"], o["l"] = o["l"], o["u"]
            if o["bk"] == -1 and o["exp"] % 2:
                sign *= -1
    p = draw(st.sampled_from([1, -1, 1, -1, 2, 3, -5]))
    q = draw(st.sampled_from([1, 1, 2, 3]))
    bp, bq = term["pref"]
    var["pref"] = [bp * p * sign, bq * q]
    var["coef"] = [p, q]
    return var


@st.composite
def st_case(draw):
    base = draw(st_expr_case(CFG))
    numbered = draw(st.booleans())
    groups = []
    for t in base["terms"]:
        nvar = draw(st.sampled_from([0, 1, 1, 2] if groups else [1, 1, 2]))
        variants = [draw(st_variant(t, base["targets"], numbered))
                    for _ in range(nvar)]
        groups.append({"base": t, "variants": variants})
    # unrelated terms: same tensor multiset, different connectivity (the
    # contracted labels are permuted over the contracted slots of a class)
    for g in list(groups):
        if draw(st.integers(0, 2)) != 0:
            continue
        t = copy.deepcopy(g["base"])
        slots = {}
        for oi, o in enumerate(t["objs"]):
            for grp in ("u", "l"):
                for pos, lbl in enumerate(o.get(grp, [])):
                    if lbl not in base["targets"]:
                        slots.setdefault((label_class(lbl), o["exp"]),
                                         []).append((oi, grp, pos, lbl))
        for c, lst in sorted(slots.items()):
            if len(lst) < 3:
                continue
            perm = draw(st.permutations(range(len(lst))))
            for (oi, grp, pos, _), k in zip(lst, perm):
                t["objs"][oi][grp][pos] = lst[k][3]
        t["pref"] = [draw(st.sampled_from([1, -1, 2])) * t["pref"][0],
                     t["pref"][1]]
        groups.append({"base": t, "variants": [], "rewired": True})
    real = draw(st.booleans())
    # bra-ket assumptions for tensors that carry none and are square
    names = {}
    for t in base["terms"]:
        for o in t["objs"]:
            if o["k"] in ("A", "S"):
                sq = len(o["u"]) == len(o["l"])
                names[o["name"]] = names.get(o["name"], True) and sq \
                    and o.get("bk", 0) == 0
    cands = sorted(n for n, ok in names.items() if ok)
    sym_t, antisym_t = [], []
    for n in cands:
        x = draw(st.integers(0, 5))
        if x == 0:
            sym_t.append(n)
        elif x == 1 and not (real and n in ("f", "V")):
            antisym_t.append(n)
    poly = draw(st.integers(0, 24)) == 0
    retarget = None
    if draw(st.integers(0, 2)) == 0:
        retarget = [l for l in base["targets"] if draw(st.booleans())]
    return {"retarget": retarget,
            "groups": groups, "targets": base["targets"],
            "explicit": base["explicit"], "spin": base["spin"],
            "real": real, "sym_tensors": sym_t, "antisym_tensors": antisym_t,
            "poly": poly, "mseed": draw(st.integers(0, 2**31))}


def strategy(tier):
    return st_case()


def build(case):
    """-> (Expr, target tuple, list of per-group sympy sums)"""
    targets = syms(case["targets"])
    kw = dict(real=case.get("real", False),
              sym_tensors=case.get("sym_tensors") or None,
              antisym_tensors=case.get("antisym_tensors") or None)
    if case.get("explicit"):
        kw["target_idx"] = list(targets)
    total = S.Zero
    group_sums = []
    tsorted = tuple(sorted(targets, key=idx_key))
    for g in case["groups"]:
        s = build_term(g["base"])
        if g.get("rewired"):
            # a re-wiring may degenerate (delta_xx = 1 leaves x dangling):
            # keep it only if its free indices are still the targets
            if s == 0 or (not case.get("explicit") and
                          einstein_target(s) != tsorted):
                s = S.Zero
        for v in g["variants"]:
            s += build_term(v)
        group_sums.append(s)
        total += s
    if case.get("poly"):
        # an explicit orbital energy denominator: documented limitation
        occ = [t for t in targets if t.space == "occ"]
        virt = [t for t in targets if t.space == "virt"]
        if occ and virt:
            den = (NonSymmetricTensor("e", (virt[0],))
                   - NonSymmetricTensor("e", (occ[0],)))
            total = total / den
    case["_poly_applied"] = bool(case.get("poly") and occ and virt) \
        if case.get("poly") else False
    if case["_poly_applied"]:   # Einstein counting is ambiguous then
        kw["target_idx"] = list(targets)
    return Expr(total, **kw), tuple(sorted(targets, key=idx_key)), \
        group_sums, kw


def group_total(g):
    tot = Rational(1)
    for v in g["variants"]:
        tot += Rational(*v["coef"])
    return tot


def run_case(case):
    r = R()
    expr, target, group_sums, kw = build(case)
    n_in = 0 if expr.sympy == 0 else len(expr)
    r.sample = f"simplify({expr}) targets={target} real={case.get('real')}"
    poly = case.pop("_poly_applied", False)
    ok, out = lib_call(r, "simplify", simplify, expr.copy(),
                       refusals=(NotImplementedError,) if poly else ())
    if not ok:
        r.cls("refused" if not r.fails else "exception")
        return r
    n_out = 0 if out.sympy == 0 else len(out)
    # classes
    r.cls(f"terms_in={min(n_in, 6)}")
    if case.get("spin"):
        r.cls("spin")
    if case.get("explicit"):
        r.cls("explicit_target")
    if any(label_class(l)[0] == "general" for g in case["groups"]
           for l in term_label_count(g["base"])):
        r.cls("general_index")
    if case.get("real"):
        r.cls("real")
    if any(g.get("rewired") for g in case["groups"]):
        r.cls("rewired_term")
    if case.get("sym_tensors") or case.get("antisym_tensors"):
        r.cls("braket_assumption")
    multisets = []
    for g in case["groups"]:
        for t in [g["base"]] + g["variants"]:
            multisets.append(tuple(sorted((o["name"], o["exp"])
                                          for o in t["objs"])))
    if len(multisets) != len(set(multisets)) and n_in >= 2:
        r.nontrivial = True
    if any(any(n >= 3 for n in term_label_count(g["base"]).values())
           for g in case["groups"]):
        r.cls("hyper_or_power")
    # 1) never more terms
    if n_out > n_in:
        r.fail("more_terms", f"{n_in} -> {n_out}: {expr} -> {out}")
    # 2) assumptions / targets kept
    if out.assumptions != expr.assumptions:
        r.fail("assumptions_changed",
               f"{expr.assumptions} -> {out.assumptions}")
    if not case.get("explicit") and not poly:
        for t in (out.sympy.args if out.sympy.is_Add else (out.sympy,)):
            if t == 0:
                continue
            tt = einstein_target(t)
            if tt != target:
                r.fail("free_indices_changed",
                       f"term {t} has free indices {tt}, expected {target}")
                break
    # 3) value
    sizes = [(1, 1), (2, 1)] if case.get("spin") else [(2, 3), (3, 2)]
    for k, (no, nv) in enumerate(sizes):
        m = Model(case.get("mseed", 0) + k, no, nv, spin=bool(case.get("spin")))
        v_in = evaluate(m, expr.sympy, target)
        v_out = evaluate(m, out.sympy, target)
        if not (v_in == v_out).all():
            r.fail("value", f"{expr}  ->  {out}  (targets {target}, model "
                   f"seed {m.seed} size {no},{nv})")
            break
    # 4) completeness: alpha-equivalent terms merge
    if not poly:
        # (a term may vanish identically by symmetry, then any coefficient is
        #  right: whether a merged group cancels is decided by the value check)
        bound = len(case["groups"])
        if n_out > bound:
            # find the group that does not merge on its own
            culprit = None
            for g, s in zip(case["groups"], group_sums):
                if not g["variants"]:
                    continue
                sub = Expr(s, **kw)
                ok2, o2 = lib_call(r, "simplify_group", simplify, sub)
                if not ok2:
                    continue
                n2 = 0 if o2.sympy == 0 else len(o2)
                if n2 > 1:
                    culprit = f"{sub} -> {o2}"
                    r.fail("not_merged", "alpha-equivalent terms not "
                           f"combined: {culprit}")
                    break
            if culprit is None:
                r.fail("not_merged_in_context",
                       f"{n_out} terms > bound {bound}: {expr} -> {out}")
    # 5) history on one object: simplify, declare fewer target indices on
    #    the SAME Expr (former targets become contracted), simplify again.
    #    The result must have the value of the input under the new targets
    #    and must not hold more terms than the result for a freshly built
    #    Expr with those targets (otherwise alpha-equivalent terms that the
    #    library can combine were left unmerged).
    if case.get("retarget") is not None and not case.get("explicit") \
            and not poly and not r.fails and expr.sympy != 0:
        keep = [l for l in case["targets"] if l in case["retarget"]]
        new_t = tuple(sorted(syms(keep), key=idx_key))
        raw = expr.sympy
        ok, _ = lib_call(r, "simplify", simplify, expr)
        if ok:
            ok, _ = lib_call(r, "set_target_idx", expr.set_target_idx,
                             list(new_t))
        if ok:
            ok, out_b = lib_call(r, "simplify_after_set_target_idx",
                                 simplify, expr)
        if ok:
            kw_f = dict(kw)
            kw_f["target_idx"] = list(new_t)
            ok, out_f = lib_call(r, "simplify_fresh", simplify,
                                 Expr(raw, **kw_f))
        if ok:
            r.cls("retarget_history")
            nb = 0 if out_b.sympy == 0 else len(out_b)
            nf = 0 if out_f.sympy == 0 else len(out_f)
            m = Model(case.get("mseed", 0) + 7, *sizes[0],
                      spin=bool(case.get("spin")))
            if not (evaluate(m, raw, new_t) ==
                    evaluate(m, out_b.sympy, new_t)).all():
                r.fail("value_after_set_target_idx",
                       f"simplify(e); e.set_target_idx({new_t}); simplify(e)"
                       f" for e = {Expr(raw, **kw)}: {out_b}")
            elif nb > nf:
                r.fail("not_merged_after_set_target_idx",
                       f"simplify(e); e.set_target_idx({new_t}); simplify(e)"
                       f" for e = {Expr(raw, **kw)} gives {nb} terms "
                       f"({out_b}), a fresh Expr with these targets {nf} "
                       f"({out_f})")
    return r


def run_shard(col, shard, nshards, seed, tier):
    drive(strategy(tier), run_case, N_EXAMPLES[tier],
          seed * 1000 + shard, col)


def self_test():
    common.self_test_model()
