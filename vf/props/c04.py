"""C04 - intermediate states are orthonormal order by order."""
import itertools

import numpy as np
from hypothesis import strategies as st
from sympy import S

from adcgen import Expr, Operators, GroundState, IntermediateStates
from adcgen.indices import get_symbols

from ..gen import BadCase, ALPHABET
from ..model import Model, evaluate, P
from ..fock import vev
from ..runner import R, drive, lib_call
from .. import common, fock

ID = "C04"
RULE = ("Hypothesis draws (ADC variant pp/ip/ea/dip/dea, pair of excitation "
        "classes from the lowest two (thorough: three), order 0..2 (thorough "
        "3), first_order_singles, partitioning mp/re, generated disjoint "
        "index names, model (2,2)/(3,2)/(3,3), seed, amplitudes' complex "
        "conjugates aliased or independent). overlap_isr is evaluated on "
        "RANDOM amplitude tensors t<n>, t<n>cc (no Hamiltonian needed). "
        "Oracle: zeroth order and equal classes: <Phi|C_I^+ C_J|Phi> by "
        "bit-string algebra for every assignment (antisymmetrised delta "
        "product); everything else: the zero array; overlap_precursor(I,J) "
        "== overlap_precursor(J,I)^T with aliased amplitudes. Non-trivial: "
        "order >= 2 or different classes, array with > 1 element.")
BUDGET = {"quick": 110, "thorough": 1800}
N_EXAMPLES = {"quick": 20, "thorough": 220}
ASSUMPTIONS = ["excitation operators in the documented order a+_a a+_b a_i "
               "a_j (reverse_annihilation=False)"]

CLASSES = {"pp": ["ph", "pphh", "ppphhh"], "ip": ["h", "phh", "pphhh"],
           "ea": ["p", "pph", "ppphh"], "dip": ["hh", "phhh"],
           "dea": ["pp", "ppph"]}
_ISR = {}


def isr_obj(variant, part, singles):
    key = (variant, part, singles)
    if key not in _ISR:
        gs = GroundState(Operators(part), first_order_singles=singles)
        _ISR[key] = IntermediateStates(gs, variant)
    return _ISR[key]


@st.composite
def st_idx(draw, sp1, sp2):
    n_o = sp1.count("h") + sp2.count("h")
    n_v = sp1.count("p") + sp2.count("p")
    if draw(st.booleans()):
        # the names every user types (ia,jb / ijab,klcd): the same request
        # strings then recur on the differently configured objects (with /
        # without first-order singles, mp / re) that live in one process
        i1 = list(ALPHABET["occ"][:sp1.count("h")]) + \
            list(ALPHABET["virt"][:sp1.count("p")])
        i2 = list(ALPHABET["occ"][sp1.count("h"):n_o]) + \
            list(ALPHABET["virt"][sp1.count("p"):n_v])
        return i1, i2
    occ = list(draw(st.permutations(list(ALPHABET["occ"]))))[:n_o]
    virt = list(draw(st.permutations(list(ALPHABET["virt"]))))[:n_v]
    if draw(st.integers(0, 3)) == 0:
        occ = [n + str(draw(st.sampled_from([1, 2]))) for n in occ]
        virt = [n + str(draw(st.sampled_from([1, 2]))) for n in virt]
    i1 = occ[:sp1.count("h")] + virt[:sp1.count("p")]
    i2 = occ[sp1.count("h"):] + virt[sp1.count("p"):]
    if draw(st.booleans()):
        i1 = list(draw(st.permutations(i1)))
        i2 = list(draw(st.permutations(i2)))
    return i1, i2


@st.composite
def st_case(draw, tier):
    variant = draw(st.sampled_from(["pp", "pp", "ip", "ea", "dip", "dea"]))
    ncls = 2 if tier == "quick" else 3
    cls = CLASSES[variant][:ncls]
    sp1, sp2 = draw(st.sampled_from(cls)), draw(st.sampled_from(cls))
    order = draw(st.integers(0, 2 if tier == "quick" else 3))
    # keep the expensive blocks at low order
    size = len(sp1) + len(sp2)
    if size >= 7 and order > 1:
        order = 1
    if size >= 9:
        order = min(order, 0 if tier == "quick" else 1)
    if draw(st.integers(0, 9)) == 0:
        # Taylor recipe of S^-1/2 = (1 + sum_n S^(n))^-1/2: cheap at any
        # order, checked with non-commuting matrices far beyond the orders
        # whose overlaps can be derived
        mo = draw(st.sampled_from([1, 2, 2, 2, 3]))
        return {"variant": variant, "sub": "s_taylor",
                "singles": draw(st.booleans()), "part": "mp",
                "order": draw(st.integers(0, 7 if mo == 1 else 9)),
                "min_order": mo,
                "mseed": draw(st.integers(0, 2**31))}
    i1, i2 = draw(st_idx(sp1, sp2))
    return {"variant": variant, "sp1": sp1, "sp2": sp2, "order": order,
            "singles": draw(st.booleans()),
            "part": draw(st.sampled_from(["mp", "mp", "re"])),
            "i1": i1, "i2": i2,
            "size": draw(st.sampled_from([[2, 2], [3, 2], [3, 3]])),
            "alias": draw(st.booleans()),
            "sub": draw(st.sampled_from(["isr", "isr", "isr", "precursor"])),
            "mseed": draw(st.integers(0, 2**31))}


def strategy(tier):
    return st_case(tier)


def excitation_ops(sp_syms, assign):
    """C_I = a+_a a+_b ... a_i a_j in the given (name) order"""
    virt = [s for s in sp_syms if s.space == "virt"]
    occ = [s for s in sp_syms if s.space == "occ"]
    return [("c", assign[s]) for s in virt] + [("a", assign[s]) for s in occ]


def run_case(case):
    r = R()
    isr = isr_obj(case["variant"], case["part"], case["singles"])
    if case.get("sub") == "s_taylor":
        n, mo = case["order"], case["min_order"]
        # the library enumerates product(range(mo, n + 1), repeat=k) for
        # every k <= n // mo: keep that enumeration small
        if mo < 1 or (n - mo + 1) ** (n // mo) > 10**6:
            raise BadCase("recipe enumeration too large")
        r.sample = (f"IntermediateStates({case['variant']}).expand_S_taylor("
                    f"{n}, {mo})")
        ok, rec = lib_call(r, "expand_S_taylor", isr.expand_S_taylor, n, mo)
        if ok:
            msg = common.check_taylor_recipe(rec, n, mo, -1, case["mseed"])
            if msg:
                r.fail("s_taylor_recipe", f"{r.sample}: {msg}")
        r.nontrivial = n >= 2 * mo
        r.cls("s_taylor_recipe", f"order={n}")
        return r
    sp1, sp2, order = case["sp1"], case["sp2"], case["order"]
    I = get_symbols(case["i1"])
    J = get_symbols(case["i2"])
    s1, s2 = "".join(case["i1"]), "".join(case["i2"])
    tgt = tuple(I) + tuple(J)
    no, nv = case["size"]
    m = Model(case["mseed"], no, nv)
    if case["alias"]:
        for n in range(1, 5):
            m.alias[f"t{n}cc"] = f"t{n}"
    if case["sub"] == "precursor":
        if sp1 != sp2:
            sp2 = sp1
            # second index set: same letters with the other non-generic
            # number (1 / 2; numbers >= 3 are handed out as generic indices)
            jn = [n[0] + ("2" if n[1:] != "2" else "1") for n in case["i1"]]
            J = get_symbols(jn)
            s2 = "".join(jn)
            tgt = tuple(I) + tuple(J)
        for n in range(1, 5):
            m.alias[f"t{n}cc"] = f"t{n}"
        r.sample = (f"IntermediateStates({case['variant']}, {case['part']}, "
                    f"singles={case['singles']}).overlap_precursor({order}, "
                    f"'{sp1},{sp2}', '{s1},{s2}')")
        ok, ex = lib_call(r, "overlap_precursor", isr.overlap_precursor,
                          order, f"{sp1},{sp2}", f"{s1},{s2}")
        if not ok:
            return r
        val = evaluate(m, Expr(ex).expand().sympy, tgt)
        # exchange the two index sets: position k of I <-> position k of J
        # the k-th occupied (virtual) index of I <-> the k-th of J
        n1 = len(I)

        def slots(T, off):
            return ([off + k for k, s_ in enumerate(T) if s_.space == "occ"],
                    [off + k for k, s_ in enumerate(T) if s_.space == "virt"])
        (oi, vi), (oj, vj) = slots(I, 0), slots(J, n1)
        perm = list(range(2 * n1))
        for a_, b_ in zip(oi + vi, oj + vj):
            perm[a_], perm[b_] = b_, a_
        if not (val == np.transpose(val, perm)).all():
            r.fail("precursor_overlap_not_symmetric",
                   f"{r.sample}: S[I,J] != S[J,I] on model {case['size']}")
        r.nontrivial = order >= 2 and val.size > 1
        r.cls("precursor", f"order={order}", case["variant"])
        return r
    r.sample = (f"IntermediateStates({case['variant']}, {case['part']}, "
                f"singles={case['singles']}).overlap_isr({order}, "
                f"'{sp1},{sp2}', '{s1},{s2}') alias_cc={case['alias']}")
    ok, ex = lib_call(r, "overlap_isr", isr.overlap_isr, order,
                      f"{sp1},{sp2}", f"{s1},{s2}")
    if not ok:
        return r
    val = evaluate(m, Expr(ex).expand().sympy, tgt)
    ref = np.zeros_like(val)
    if order == 0 and sp1 == sp2:
        ranges = [m.positions(s) for s in tgt]
        for pos in itertools.product(*[range(len(x)) for x in ranges]):
            assign = {s: ranges[k][p_] for k, (s, p_) in
                      enumerate(zip(tgt, pos))}
            ket = excitation_ops(J, assign)
            bra = excitation_ops(I, assign)
            # (C_I)^+ : reversed order, creators <-> annihilators
            bra_dag = [("a" if k == "c" else "c", o) for k, o in
                       reversed(bra)]
            ref[pos] = vev([("op", x) for x in bra_dag + ket], m.no) % P
    if not (val == ref).all():
        r.fail("overlap_isr", f"{r.sample} on model {case['size']}: "
               f"{int((val != ref).sum())} of {val.size} elements differ "
               "from the orthonormality condition")
    r.nontrivial = (order >= 2 or sp1 != sp2) and val.size > 1
    r.cls("isr", f"order={order}", case["variant"],
          "equal_classes" if sp1 == sp2 else "different_classes")
    return r


# fixed deep cases: the first order at which the quadratic term of the
# S^-1/2 Taylor series (S(2) S(2)) contributes is 4
DEEP = [
    {"variant": "ip", "sp1": "h", "sp2": "h", "order": 4, "singles": False,
     "part": "mp", "i1": ["i"], "i2": ["j"], "size": [2, 2], "alias": True,
     "sub": "isr", "mseed": 5},
    {"variant": "ea", "sp1": "p", "sp2": "p", "order": 4, "singles": False,
     "part": "mp", "i1": ["a"], "i2": ["b"], "size": [2, 2], "alias": False,
     "sub": "isr", "mseed": 6},
    {"variant": "ip", "sp1": "h", "sp2": "h", "order": 4, "singles": True,
     "part": "re", "i1": ["k2"], "i2": ["l"], "size": [3, 2], "alias": True,
     "sub": "isr", "mseed": 7},
    {"variant": "pp", "sp1": "ph", "sp2": "ph", "order": 3, "singles": True,
     "part": "mp", "i1": ["i", "a"], "i2": ["j", "b"], "size": [2, 2],
     "alias": True, "sub": "isr", "mseed": 8},
]


def run_shard(col, shard, nshards, seed, tier):
    if shard < len(DEEP):
        col.run(DEEP[shard], run_case)
    drive(strategy(tier), run_case, N_EXAMPLES[tier], seed * 1000 + shard,
          col)


SHRINK = False


def self_test():
    common.self_test_model()
    fock.self_test()
