"""C15 - spin integration yields exactly the requested spin block."""
import itertools

import numpy as np
from hypothesis import strategies as st
from sympy import S, Add, Pow

from adcgen import Expr, transform_to_spatial_orbitals
from adcgen.spatial_orbitals import integrate_spin, allowed_spin_blocks
from adcgen.indices import Index, get_symbols

from ..gen import (Cfg, st_expr_case, build_term, build_obj, obj_labels,
                   syms, parse_label, label_class, term_label_count, BadCase)
from ..model import Model, evaluate, idx_key, P
from ..runner import R, drive, lib_call
from .. import common

ID = "C15"
RULE = ("Hypothesis: spin-orbital expressions (1-3 terms with identical free "
        "indices) of antisymmetrised integrals V, t-amplitudes, deltas and "
        "tensors without known spin blocks, target index strings in "
        "generated order; for (sampled or all) target spin strings: "
        "integrate_spin / transform_to_spatial_orbitals with expand_eri "
        "on/off and restricted on/off. Oracle: one spin-structured F_p model "
        "(Coulomb integrals (pq|rs) with spin conservation and 8-fold "
        "symmetry, V = (pr|qs) - (ps|qr), spin-conserving amplitudes): value "
        "of the output over the spatial target assignment == value of the "
        "input on the spin orbitals of the requested spins; restricted: "
        "models whose tensors depend on spatial labels only (expressions of "
        "V/deltas/unknown tensors); blocks not reported by "
        "allowed_spin_blocks evaluate to zero (this clause also on closed "
        "single terms of 4-5 tensors). Non-trivial: >= 2 coupled "
        "objects and >= 1 summed index whose spin is not fixed by the "
        "targets.")
BUDGET = {"quick": 100, "thorough": 1500}
N_EXAMPLES = {"quick": 500, "thorough": 8000}
ASSUMPTIONS = ["tensors without known spin blocks (f, x, z ...) are modelled "
               "with all spin blocks non-zero, as the library treats them"]

CFG = Cfg(min_obj=1, max_obj=3, max_terms=3, max_target=4, max_exp=2,
          allow_general=False, allow_hyper=False, allow_explicit=False,
          allow_symbols=False, allow_spin=False, allow_numbered=True,
          max_slots=9, names=["V", "t1", "t2", "f", "x", "z", "delta"],
          rank_override={"t2": [(1, 1), (2, 2)]}, weights={"V": 3, "t1": 2})


# larger closed single terms for the allowed_spin_blocks clause only
CFG_BIG = Cfg(min_obj=4, max_obj=5, max_terms=1, max_target=4, max_exp=1,
              allow_general=False, allow_hyper=False, allow_explicit=False,
              allow_symbols=False, allow_spin=False, allow_numbered=False,
              max_slots=16, names=["V", "t1", "t2"],
              rank_override={"t2": [(1, 1), (1, 1), (2, 2)]},
              weights={"t2": 3})


def _pobj(kind, name, u, l=(), bk=0):
    return {"k": kind, "name": name, "u": list(u), "l": list(l), "bk": bk,
            "exp": 1}


@st.composite
def st_poly_case(draw):
    """A term with explicit target indices that carries a polynomial factor
    (sum of orbital energies and integrals on the target indices, e.g. an
    Epstein-Nesbet like denominator) next to / instead of top-level
    integrals."""
    if draw(st.booleans()):
        occ, virt = ["i", "j"], ["a", "b"]
    else:
        occ, virt = ["i"], ["a"]
    tg = occ + virt
    num = []
    kind = draw(st.sampled_from(["V", "v", "x", "t", "none", "xV"]))
    if len(occ) == 2:
        if kind in ("V", "xV"):
            num.append(_pobj("A", "V", occ, virt))
        if kind == "v":
            num.append(_pobj("S", "v", [occ[0], virt[0]], [occ[1], virt[1]],
                             1))
        if kind in ("x", "xV"):
            num.append(_pobj("N", "x", [occ[0], virt[1]]))
        if kind == "t":
            num.append(_pobj("T", "t1", virt, occ))
    else:
        if kind in ("V", "xV", "v"):
            num.append(_pobj("A", "V", [occ[0], virt[0]], [occ[0], virt[0]]))
        if kind in ("x", "xV"):
            num.append(_pobj("N", "x", [occ[0], virt[0]]))
        if kind == "t":
            num.append(_pobj("T", "t2", virt, occ))
    poly = []
    # orbital energies of (a subset of) the targets, at least one
    es = draw(st.lists(st.sampled_from(tg), min_size=1, max_size=len(tg),
                       unique=True))
    for lbl in es:
        poly.append({"c": draw(st.sampled_from([1, -1, 2])),
                     "o": _pobj("N", "e", [lbl])})
    pairs = [(p_, q_) for p_, q_ in itertools.combinations(tg, 2)]
    for p_, q_ in draw(st.lists(st.sampled_from(pairs), min_size=1,
                                max_size=3, unique=True)):
        shape = draw(st.sampled_from(["diag", "diag", "exch", "coul"]))
        if shape == "diag":
            o = _pobj("A", "V", [p_, q_], [p_, q_])
        elif shape == "exch":
            o = _pobj("A", "V", [p_, q_], [q_, p_])
        else:
            o = _pobj("S", "v", [p_, p_], [q_, q_], 1)
        poly.append({"c": draw(st.sampled_from([1, -1, 2, -3])), "o": o})
    if len(occ) == 2 and draw(st.booleans()):
        poly.append({"c": draw(st.sampled_from([1, -1])),
                     "o": _pobj("A", "V", occ, virt)})
    order = list(draw(st.permutations(tg)))
    all_spins = ["".join(s_) for s_ in
                 itertools.product("ab", repeat=len(order))]
    spins = list(draw(st.permutations(all_spins)))[:4]
    return {"poly": {"num": num, "terms": poly,
                     "exp": draw(st.sampled_from([-1, -1, -2, 1, 2])),
                     "pref": [draw(st.sampled_from([1, -1, 3])),
                              draw(st.sampled_from([1, 2]))]},
            "order": order, "spins": spins,
            "expand_eri": draw(st.sampled_from([True, True, False])),
            "restricted": draw(st.sampled_from([True, True, False])),
            "size": draw(st.sampled_from([[1, 1], [2, 1], [1, 2]])),
            "mseed": draw(st.integers(0, 2**31))}


@st.composite
def st_case(draw):
    if draw(st.integers(0, 9)) == 0:
        return draw(st_poly_case())
    if draw(st.integers(0, 4)) == 0:
        base = draw(st_expr_case(CFG_BIG))
        if len(base["targets"]) >= 2:
            # optionally a first term made of deltas that pair up the free
            # indices (delta_ij delta_ab - sum t t: overlap / secular matrix
            # like expressions)
            tg = sorted(base["targets"])
            occ = [l for l in tg if label_class(l)[0] == "occ"]
            virt = [l for l in tg if label_class(l)[0] == "virt"]
            if len(occ) % 2 == 0 and len(virt) % 2 == 0 and \
                    draw(st.booleans()):
                objs = []
                for grp in (occ, virt):
                    grp = list(draw(st.permutations(grp)))
                    for k in range(0, len(grp), 2):
                        objs.append({"k": "K", "name": "delta",
                                     "u": [grp[k], grp[k + 1]], "l": [],
                                     "bk": 0, "exp": 1})
                base["terms"].insert(0, {"pref": [1, 1], "sqrt": 0,
                                         "syms": [], "objs": objs})
            return {"terms": base["terms"],
                    "order": list(draw(st.permutations(base["targets"]))),
                    "spins": [], "only_allowed": True, "expand_eri": True,
                    "restricted": False, "size": [1, 1],
                    "mseed": draw(st.integers(0, 2**31))}
    base = draw(st_expr_case(CFG))
    order = list(draw(st.permutations(base["targets"])))
    n = len(order)
    all_spins = ["".join(s_) for s_ in itertools.product("ab", repeat=n)]
    k = min(len(all_spins), 4)
    spins = list(draw(st.permutations(all_spins)))[:k]
    return {"terms": base["terms"], "order": order, "spins": spins,
            "expand_eri": draw(st.sampled_from([True, True, False])),
            "restricted": draw(st.sampled_from([True, True, False])),
            "size": draw(st.sampled_from([[1, 1], [1, 1], [2, 1], [1, 2]])),
            "mseed": draw(st.integers(0, 2**31))}


def strategy(tier):
    return st_case()


def spin_model(seed, no_s, nv_s, restricted=False):
    m = Model(seed, no_s, nv_s, spin=True)
    N = m.N
    sp = m.spin_of
    spat = m.spatial_of
    ns = no_s + nv_s
    # spatial Coulomb integrals (pq|rs), 8-fold symmetric; per spin pair a
    # separate set unless restricted
    rng = np.random.default_rng([seed, 4242])
    g = {}
    for sig in (("a", "a"), ("a", "b"), ("b", "b")):
        raw = rng.integers(1, P, size=(ns,) * 4, dtype=np.int64)
        arr = np.zeros_like(raw)
        for perm in [(0, 1, 2, 3), (1, 0, 2, 3), (0, 1, 3, 2), (1, 0, 3, 2),
                     (2, 3, 0, 1), (3, 2, 0, 1), (2, 3, 1, 0), (3, 2, 1, 0)]:
            arr = (arr + np.transpose(raw, perm)) % P
        g[sig] = arr
    if restricted:
        g[("a", "b")] = g[("b", "b")] = g[("a", "a")]
    else:
        # (pq|rs)_{ab} has no p<->r... exchange symmetry between the pairs of
        # different spin: only (pq|rs) = (qp|rs) = (pq|sr) and the swap of
        # the pairs together with the spins
        raw = rng.integers(1, P, size=(ns,) * 4, dtype=np.int64)
        arr = np.zeros_like(raw)
        for perm in [(0, 1, 2, 3), (1, 0, 2, 3), (0, 1, 3, 2), (1, 0, 3, 2)]:
            arr = (arr + np.transpose(raw, perm)) % P
        g[("a", "b")] = arr
    g[("b", "a")] = np.transpose(g[("a", "b")], (2, 3, 0, 1))
    v = np.zeros((N,) * 4, dtype=np.int64)   # v[p,r,q,s] = (pr|qs)
    for p, r_, q, s_ in itertools.product(range(N), repeat=4):
        if sp[p] != sp[r_] or sp[q] != sp[s_]:
            continue
        v[p, r_, q, s_] = g[(sp[p], sp[q])][spat[p], spat[r_], spat[q],
                                            spat[s_]]
    m.set_tensor("v", 2, 2, v, kind="sym", bk=1)
    V = (v.transpose(0, 2, 1, 3) - v.transpose(0, 3, 2, 1)) % P
    # V[p,q,r,s] = v[p,r,q,s] - v[p,s,q,r]
    V = np.zeros((N,) * 4, dtype=np.int64)
    for p, q, r_, s_ in itertools.product(range(N), repeat=4):
        V[p, q, r_, s_] = (int(v[p, r_, q, s_]) - int(v[p, s_, q, r_])) % P
    m.set_tensor("V", 2, 2, V, kind="anti", bk=1)
    m.bk["V"] = 1
    m.bk["f"] = 1
    return m


def add_amplitudes(m, case, restricted):
    for t in case["terms"]:
        for o in t["objs"]:
            if o["name"] in ("t1", "t2") and \
                    (o["name"], len(o["u"]), len(o["l"])) not in m.tensors:
                nu, nl = len(o["u"]), len(o["l"])
                arr = m.full_tensor(o["name"], nu, nl, "anti", 0).copy()
                for idx in itertools.product(range(m.N), repeat=nu + nl):
                    up = sorted(m.spin_of[x] for x in idx[:nu])
                    lo = sorted(m.spin_of[x] for x in idx[nu:])
                    if up != lo:
                        arr[idx] = 0
                m.tensors[(o["name"], nu, nl)] = arr


def spatialise_unknown(m, case):
    """restricted model: tensors without spin blocks depend on the spatial
    labels only"""
    for t in case["terms"]:
        for o in t["objs"]:
            if o["k"] == "N" or o["name"] == "f":
                rank = len(o["u"]) + len(o["l"])
                key = (o["name"], "n", rank) if o["k"] == "N" else \
                    (o["name"], len(o["u"]), len(o["l"]))
                if key in m.meta and m.meta[key] == ("spatial", 0):
                    continue
                if o["k"] == "N":
                    full = m.full_tensor(o["name"], 0, rank, "nonsym", 0)
                else:
                    full = m.full_tensor(o["name"], 1, 1, "anti", 1)
                ns = m.no_s + m.nv_s
                rep = [0] * ns
                for x in range(m.N):
                    if m.spin_of[x] == "a":
                        rep[m.spatial_of[x]] = x
                arr = np.zeros_like(full)
                for idx in itertools.product(range(m.N), repeat=rank):
                    src = tuple(rep[m.spatial_of[x]] for x in idx)
                    arr[idx] = full[src]
                m.tensors[key] = arr
                m.meta[key] = ("any", "any")


def run_case(case):
    r = R()
    order = case["order"]
    tnames = "".join(parse_label(l)[0] for l in order)
    targets = tuple(syms(order))
    if "poly" in case:
        # explicit target indices: an index shared by the numerator and the
        # polynomial is not summed
        pc = case["poly"]
        base = Add(*[int(q["c"]) * build_obj(q["o"]) for q in pc["terms"]])
        if base == 0 or not isinstance(base, Add) or \
                int(pc["exp"]) not in (-2, -1, 1, 2):
            raise BadCase("degenerate polynomial")
        lbls = {l for q in pc["terms"] for l in obj_labels(q["o"])} | \
            {l for o in pc["num"] for l in obj_labels(o)}
        if lbls != set(order) or len(set(order)) != len(order):
            raise BadCase("labels of a polynomial case must be the targets")
        raw = build_term({"pref": pc.get("pref", [1, 1]),
                          "objs": pc["num"]}) * Pow(base, int(pc["exp"]))
        e = Expr(raw, real=True, target_idx=list(targets))
        case = dict(case, terms=[{"objs": list(pc["num"]) +
                                  [q["o"] for q in pc["terms"]]}])
    else:
        terms = [build_term(t) for t in case["terms"]]
        terms = [t for t in terms if t != 0]
        if not terms:
            raise BadCase("zero")
        e = Expr(Add(*terms), real=True)
    if e.sympy == 0:
        raise BadCase("zero")
    names = {o["name"] for t in case["terms"] for o in t["objs"]}
    restricted_ok = names <= {"V", "v", "e", "x", "z", "delta", "f"}
    restricted = case["restricted"] and restricted_ok and case["expand_eri"]
    r.sample = (f"transform_to_spatial_orbitals({e}, '{tnames}', "
                f"{case['spins']}, restricted={restricted}, expand_eri="
                f"{case['expand_eri']})")
    no_s, nv_s = case.get("size", [1, 1])
    if len(order) > 3:
        no_s, nv_s = 1, 1
    m = spin_model(case["mseed"], no_s, nv_s, restricted=restricted)
    add_amplitudes(m, case, restricted)
    if restricted:
        spatialise_unknown(m, case)
    v_so = evaluate(m, e.sympy, targets)   # over all spin orbitals
    nz_blocks = {}
    for spins in case["spins"]:
        if len(spins) != len(order):
            raise BadCase("spin string length")
        tgt_s = tuple(get_symbols(tnames, spins)) if order else ()
        sel = [[m.positions(t).index(x) for x in m.positions(ts)]
               for t, ts in zip(targets, tgt_s)]
        ref = v_so[np.ix_(*sel)] if order else v_so
        nz_blocks[spins] = bool((ref != 0).any())
        ok, out = lib_call(r, f"transform/{'restricted' if restricted else 'unrestricted'}",
                           transform_to_spatial_orbitals, e.copy(), tnames,
                           spins, restricted=restricted,
                           expand_eri=case["expand_eri"],
                           refusals=(NotImplementedError,))
        if not ok:
            continue
        if restricted:
            tgt_r = tuple(get_symbols(tnames, "a" * len(spins))) if order \
                else ()
            if any(i.spin == "b" for i in S(out.sympy).atoms(Index)):
                r.fail("restricted/beta_index_left", f"{out}")
                continue
            val = evaluate(m, out.sympy, tgt_r)
        else:
            val = evaluate(m, out.sympy, tgt_s)
        if val.shape != ref.shape or not (val == ref).all():
            r.fail(f"value/{'restricted' if restricted else 'unrestricted'}"
                   f"/expand_eri={case['expand_eri']}",
                   f"{e} targets '{tnames}' spin block {spins}: {out}")
            break
        if any(not i.spin for i in S(out.sympy).atoms(Index)):
            r.fail("index_without_spin", f"{out}")
    # allowed_spin_blocks of the expression
    if order and not r.fails and \
            not (names - {"V", "t1", "t2", "delta"}):
        # documented: only works when the spin blocks of all tensors are
        # known (closed expressions) -> RuntimeError otherwise
        unknown = names - {"V", "t1", "t2", "delta"}
        ok, blocks = lib_call(r, "allowed_spin_blocks", allowed_spin_blocks,
                              e.copy(), tnames,
                              refusals=(NotImplementedError,) +
                              ((RuntimeError,) if unknown else ()))
        if ok:
            for spins in ["".join(s_) for s_ in
                          itertools.product("ab", repeat=len(order))]:
                if spins in blocks:
                    continue
                tgt_s = tuple(get_symbols(tnames, spins))
                sel = [[m.positions(t).index(x) for x in m.positions(ts)]
                       for t, ts in zip(targets, tgt_s)]
                if (v_so[np.ix_(*sel)] != 0).any():
                    r.fail("allowed_spin_blocks",
                           f"{e} targets '{tnames}': block {spins} is not "
                           f"reported as allowed ({blocks}) but does not "
                           "vanish")
                    break
    # non-triviality: a summed index not fixed by the targets + coupling
    nt = False
    for t in case["terms"]:
        cnt = term_label_count(t)
        if len(t["objs"]) >= 2 and any(n >= 2 for l, n in cnt.items()
                                       if l not in order):
            nt = True
    if "poly" in case:
        r.nontrivial = any(nz_blocks.values())
        r.cls("polynomial_factor", f"poly_exp={case['poly']['exp']}",
              "restricted" if restricted else "unrestricted",
              f"expand_eri={case['expand_eri']}")
        return r
    if case.get("only_allowed"):
        r.nontrivial = nt and bool((v_so != 0).any())
        r.cls("allowed_spin_blocks_large_term",
              f"n_obj={sum(len(t['objs']) for t in case['terms'])}")
        return r
    r.nontrivial = nt and any(nz_blocks.values())
    r.cls("restricted" if restricted else "unrestricted",
          f"expand_eri={case['expand_eri']}", f"ntarget={len(order)}")
    return r


def run_shard(col, shard, nshards, seed, tier):
    drive(strategy(tier), run_case, N_EXAMPLES[tier], seed * 1000 + shard,
          col)


def self_test():
    common.self_test_model()
    m = spin_model(5, 1, 1)
    V = m.tensors[("V", 2, 2)]
    assert ((V + V.transpose(1, 0, 2, 3)) % P == 0).all()
    assert ((V - V.transpose(2, 3, 0, 1)) % P == 0).all()
