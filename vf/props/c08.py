"""C08 - index renaming is capture free and yields the documented names."""
import copy
from collections import Counter

from hypothesis import strategies as st
from sympy import S, Add

from adcgen import Expr
from adcgen.indices import (Indices, Index, get_symbols, order_substitutions,
                            get_lowest_avail_indices)
from adcgen.misc import Singleton
from adcgen.sympy_objects import KroneckerDelta, AntiSymmetricTensor

from ..gen import (Cfg, st_expr_case, build_term, sym, syms, label_class,
                   parse_label, BadCase, sort_labels, rebuild, label_of,
                   term_label_count, ALPHABET, st_objshape)
from ..model import Model, evaluate, idx_key, all_indices
from ..runner import R, drive, lib_call
from .. import common

ID = "C08"
RULE = ("Hypothesis: (a) index maps (chains, cycles, many-to-one, fixed "
        "points, across spaces/spins) applied to generated expressions via "
        "order_substitutions+subs vs. simultaneous reconstruction; (b) "
        "sequences of 1-5 transpositions via permute vs. one-by-one "
        "reconstruction; (c) substitute_contracted / substitute_with_generic "
        "on generated terms: targets untouched, no merging, value in F_p "
        "unchanged, names = lowest unused per (space,spin) resp. never handed "
        "out before; (d) histories of registry requests (explicit, generic, "
        "renamings) on a freshly reset registry with identity/uniqueness "
        "invariants after every step. Non-trivial: map with a cycle, a chain "
        ">= 2 or a merge; >= 2 transpositions sharing an index; a renaming "
        "that changes >= 2 names; a history with a generic request after an "
        "explicit request of a numbered name >= 3.")
BUDGET = {"quick": 90, "thorough": 1500}
N_EXAMPLES = {"quick": 1200, "thorough": 20000}
ASSUMPTIONS = ["reconstruction through the public tensor constructors is the "
               "specification of simultaneous substitution",
               "the registry is reset between generated histories "
               "(Singleton instance dropped) so that a history is replayable"]

CFG = Cfg(max_obj=4, max_terms=2, max_target=3, allow_hyper=True)


def doc_sequence(space, n):
    base = ALPHABET[space]
    out = list(base)
    k = 1
    while len(out) < n:
        out += [c + str(k) for c in base]
        k += 1
    return out


# ------------------------------------------------------------- (a) maps
@st.composite
def st_map_case(draw):
    base = draw(st_expr_case(CFG))
    labels = sorted({l for t in base["terms"] for l in term_label_count(t)})
    extra = [l for l in ["i", "j", "k2", "a", "b", "c1", "p", "q"]
             if not base["spin"]]
    extra += [l + ":a" for l in ["i", "a", "p"]] + [l + ":b" for l in ["j", "b"]] \
        if base["spin"] else []
    pool = sorted(set(labels + extra))
    shape = draw(st.sampled_from(["free", "cycle", "chain", "merge", "perm"]))
    keys = [l for l in pool]
    mp = {}
    if shape == "cycle":
        n = draw(st.integers(2, min(4, len(pool))))
        cyc = list(draw(st.permutations(pool)))[:n]
        for k in range(n):
            mp[cyc[k]] = cyc[(k + 1) % n]
    elif shape == "chain":
        n = draw(st.integers(2, min(5, len(pool))))
        ch = list(draw(st.permutations(pool)))[:n]
        for k in range(n - 1):
            mp[ch[k]] = ch[k + 1]
        if draw(st.booleans()):
            mp[ch[-1]] = ch[-1]     # chain ending in an identity entry
    elif shape == "merge":
        n = draw(st.integers(2, min(4, len(pool))))
        src = list(draw(st.permutations(pool)))[:n]
        tgt = draw(st.sampled_from(pool))
        for s_ in src:
            mp[s_] = tgt
        if draw(st.booleans()):
            mp[tgt] = tgt
    elif shape == "perm":
        perm = list(draw(st.permutations(labels)))
        mp = dict(zip(labels, perm))
    if shape == "free" or draw(st.booleans()):
        for _ in range(draw(st.integers(1, 4))):
            mp[draw(st.sampled_from(pool))] = draw(st.sampled_from(pool))
    # callers only ever map an index onto one of the same space and spin or
    # onto a more specific one (general -> occ/virt, no spin -> alpha/beta)
    def admissible(k, v):
        (sk, pk), (sv, pv) = label_class(k), label_class(v)
        return (sk == sv or sk == "general") and (pk == pv or pk == "")
    same_class = draw(st.booleans())
    if same_class:
        mp = {k: v for k, v in mp.items() if label_class(k) == label_class(v)}
    else:
        mp = {k: v for k, v in mp.items() if admissible(k, v)}
    order = list(draw(st.permutations(sorted(mp))))
    return {"sub": "map", "terms": base["terms"], "map": [[k, mp[k]] for k in order],
            "spin": base["spin"], "mseed": draw(st.integers(0, 2**31))}


def map_shape(mp):
    """classify: has cycle / chain>=2 / merge"""
    out = set()
    vals = Counter(v for k, v in mp.items() if k != v)
    if any(n > 1 for n in vals.values()):
        out.add("merge")
    for k in mp:
        seen = [k]
        cur = k
        while cur in mp and mp[cur] != cur:
            cur = mp[cur]
            if cur in seen:
                out.add("cycle")
                break
            seen.append(cur)
        if len(seen) >= 3:
            out.add("chain")
    return out


def run_map(case, r):
    raw = Add(*[build_term(t) for t in case["terms"]])
    mp_l = {k: v for k, v in case["map"]}
    mp = {sym(k): sym(v) for k, v in case["map"]}
    r.sample = f"({raw}).subs(order_substitutions({mp}))"
    ok, sub = lib_call(r, "order_substitutions", order_substitutions, dict(mp))
    if not ok:
        return
    ok, got = lib_call(r, "subs", lambda: Expr(raw).subs(sub).sympy)
    if not ok:
        return
    exp = rebuild(raw, mp)
    if got != exp:
        # term by term: a cross-space substitution that turns a delta into 0
        # on the way cannot be undone by a later substitution (the objects
        # evaluate eagerly); same observation as for permute, see DESIGN.md
        cross = any(a.space != b.space and "general" not in (a.space, b.space)
                    for a, b in mp.items())
        bad = False
        for t in Add.make_args(raw):
            g_t = Expr(t).subs(sub).sympy
            e_t = rebuild(t, mp)
            if g_t == e_t:
                continue
            if g_t == -e_t and any(
                    getattr(x, "bra_ket_sym", 0) == -1 and
                    tuple(x.upper) == tuple(x.lower)
                    for x in S(e_t).atoms(AntiSymmetricTensor)):
                # T^{x}_{x} of a bra-ket antisymmetric tensor vanishes; the
                # objects keep it with a path dependent sign (cf. C06)
                r.excluded.append("braket_antisym_diagonal_sign")
                continue
            if g_t == 0 and cross and t.atoms(KroneckerDelta):
                r.excluded.append("cross_space_map_through_zero_delta")
                continue
            bad = True
        if not bad:
            got = exp
    if got != exp:
        r.fail("ordered_vs_simultaneous",
               f"{raw} with {mp}: ordered list {sub} gives {got}, "
               f"simultaneous substitution gives {exp}")
    # no temporary index may survive
    used = set(all_indices(raw)) | set(mp.values())
    left = [i for i in S(got).atoms(Index) if i not in used]
    if left:
        r.fail("temporary_left", f"{left} in {got}")
    shp = map_shape(mp_l)
    r.nontrivial = bool(shp) and raw != exp
    r.cls("map", *[f"map_{s_}" for s_ in shp])
    if any(k == v for k, v in mp_l.items()):
        r.cls("map_with_identity_entry")


# ------------------------------------------------------ (b) permutations
@st.composite
def st_perm_case(draw):
    base = draw(st_expr_case(CFG))
    labels = sorted({l for t in base["terms"] for l in term_label_count(t)})
    if len(labels) < 2:
        labels = labels + ["i", "j"] if not base["spin"] else labels + ["i:a", "j:a"]
        labels = sorted(set(labels))
    n = draw(st.integers(1, 5))
    perms = []
    for _ in range(n):
        p = draw(st.sampled_from(labels))
        cands = [l for l in labels if l != p and
                 label_class(l) == label_class(p)]
        if not cands:
            continue
        perms.append([p, draw(st.sampled_from(cands))])
    if not perms:
        perms.append([labels[0], labels[1]])
    return {"sub": "perm", "terms": base["terms"], "perms": perms}


def run_perm(case, r):
    raw = Add(*[build_term(t) for t in case["terms"]])
    perms = [(sym(p), sym(q)) for p, q in case["perms"]]
    r.sample = f"Expr({raw}).permute({perms})"
    ok, got = lib_call(r, "permute", lambda: Expr(raw).permute(*perms).sympy)
    if not ok:
        return
    exp = S.Zero
    for t in Add.make_args(raw):
        for p, q in perms:
            t = rebuild(t, {p: q, q: p})
            if t == 0:
                # a cross-space transposition turned a delta into 0 on the
                # way; the composed relabelling and the step-by-step
                # application then differ by construction of the objects
                # (observation, see DESIGN.md)
                r.excluded.append("cross_space_perm_through_zero_delta")
                return
        exp += t
    if got != exp:
        r.fail("permute", f"{raw} permute {perms}: got {got}, one after "
               f"another gives {exp}")
    flat = [x for pq in case["perms"] for x in pq]
    r.nontrivial = len(perms) >= 2 and len(set(flat)) < len(flat)
    r.cls("perm", f"nperm={len(perms)}")


# ------------------------------------------------------ (c) renamings
@st.composite
def st_rename_case(draw):
    base = draw(st_expr_case(CFG))
    return {"sub": "rename", "terms": base["terms"], "targets": base["targets"],
            "explicit": base["explicit"], "spin": base["spin"],
            "generic": draw(st.booleans()),
            "pre": draw(st.lists(st.sampled_from(
                ["i3", "j3", "a3", "i4", "k5", "b4", "p3", "o3", "h3"]),
                max_size=3)),
            "mseed": draw(st.integers(0, 2**31))}


@st.composite
def st_rename_big_case(draw):
    """one term with 7-10 contracted indices of ONE space (more than the
    plain alphabet of that space holds next to the targets) and targets
    carrying numbered names: the lowest available names reach the numbered
    range"""
    space = draw(st.sampled_from(["occ", "virt", "general"]))
    alpha = {"occ": "ijklmno", "virt": "abcdefgh",
             "general": "pqrstuvw"}[space]
    pool = list(alpha) + [x + "2" for x in alpha[:4]]
    n = draw(st.integers(7, 10))
    contracted = list(draw(st.permutations(pool)))[:n]
    contracted = [x for x in contracted]
    targets = list(draw(st.permutations(
        [alpha[0] + "1", alpha[1] + "1", alpha[2] + "1"])))[
            :draw(st.integers(1, 2))]
    other = "a" if space != "virt" else "i"
    if draw(st.booleans()):
        targets.append(other)
    slots = contracted * 2 + targets
    slots = list(draw(st.permutations(slots)))
    objs = []
    names = ["x", "y", "w", "x", "y", "w", "x"]
    while slots:
        k = min(len(slots), draw(st.integers(3, 5)))
        chunk, slots = slots[:k], slots[k:]
        objs.append({"k": "N", "name": names[len(objs) % len(names)], "u": chunk, "l": [],
                     "bk": 0, "exp": 1})
    term = {"pref": [1, 1], "sqrt": 0, "syms": [], "objs": objs}
    return {"sub": "rename", "terms": [term], "targets": sorted(targets),
            "explicit": draw(st.booleans()), "spin": False, "generic": False,
            "pre": [], "mseed": draw(st.integers(0, 2**31))}


def check_renaming(r, case, before, after, targets, generic, seen_before,
                   tag=""):
    """before/after: sympy product terms"""
    tset = set(targets)
    ib, ia = set(S(before).atoms(Index)), set(S(after).atoms(Index))
    if not tset & ib <= ia:
        r.fail("target_touched" + tag, f"{before} -> {after}, targets {targets}")
        return
    cb = Counter(i.space_and_spin for i in ib - tset)
    ca = Counter(i.space_and_spin for i in ia - tset)
    if cb != ca:
        r.fail("merged_or_split" + tag, f"{before} -> {after}: contracted "
               f"per class {dict(cb)} -> {dict(ca)}")
        return
    for cls_, n in ca.items():
        names = sorted(i.name for i in ia - tset if i.space_and_spin == cls_)
        if generic:
            clash = [nm for nm in names if (nm, cls_[1]) in seen_before]
            if clash:
                r.fail("generic_not_fresh" + tag,
                       f"{before} -> {after}: names {clash} of class {cls_} "
                       "were handed out before")
        else:
            tnames = {i.name for i in tset if i.space_and_spin == cls_}
            seq = [x for x in doc_sequence(cls_[0], n + len(tnames) + 8)
                   if x not in tnames][:n]
            if names != sorted(seq):
                r.fail("not_lowest_names" + tag,
                       f"{before} -> {after}: class {cls_} uses {names}, "
                       f"lowest available are {seq} (targets {targets})")


def run_rename(case, r):
    for nm in case.get("pre", []):
        get_symbols([nm])
    targets = tuple(sorted(syms(case["targets"]), key=idx_key))
    kw = {"target_idx": list(targets)} if case["explicit"] else {}
    raws = [build_term(t) for t in case["terms"]]
    raws = [t for t in raws if t != 0]
    if not raws:
        raise BadCase("zero")
    e = Expr(Add(*raws), **kw)
    generic = case["generic"]
    reg = Indices()
    seen_before = {(nm, sp_) for space in reg._symbols.values()
                   for sp_, d in space.items() for nm in d}
    fn = (lambda: e.copy().substitute_with_generic()) if generic else \
        (lambda: e.copy().substitute_contracted())
    r.sample = f"{'substitute_with_generic' if generic else 'substitute_contracted'}({e}) targets={targets} explicit={case['explicit']}"
    ok, out = lib_call(r, "rename", fn)
    if not ok:
        return
    if out.provided_target_idx != e.provided_target_idx:
        r.fail("assumptions", "target_idx changed")
    # term by term (expanded input has the same term order as Add args may
    # be re-sorted: compare via per-term application)
    nchanged = 0
    for t in e.terms:
        tfn = (lambda: t.substitute_with_generic(return_sympy=True)) if generic \
            else (lambda: t.substitute_contracted(return_sympy=True))
        seen_t = {(nm, sp_) for space in reg._symbols.values()
                  for sp_, d in space.items() for nm in d}
        ok, to = lib_call(r, "rename_term", tfn)
        if not ok:
            return
        check_renaming(r, case, t.sympy, to, targets, generic, seen_t)
        nchanged += len(set(S(to).atoms(Index)) - set(t.sympy.atoms(Index)))
    # value
    sizes = [(1, 1)] if case["spin"] else [(2, 3), (3, 2)]
    for k, (no, nv) in enumerate(sizes):
        m = Model(case["mseed"] + k, no, nv, spin=case["spin"])
        v0 = evaluate(m, e.sympy, targets)
        v1 = evaluate(m, out.sympy, targets)
        if not (v0 == v1).all():
            r.fail("value", f"{e} -> {out} targets {targets}")
            break
    r.nontrivial = nchanged >= 2
    r.cls("rename_generic" if generic else "rename_lowest")
    # get_lowest_avail_indices against the documented enumeration
    for space in ("occ", "virt", "general"):
        used = [parse_label(l)[0] for l in case["targets"]
                if label_class(l)[0] == space]
        n = 3 + len(used)
        got = get_lowest_avail_indices(n, used, space)
        exp = [x for x in doc_sequence(space, n + len(used) + 8)
               if x not in used][:n]
        if got != exp:
            r.fail("get_lowest_avail_indices",
                   f"n={n} used={used} space={space}: {got} != {exp}")


# -------------------------------------------------------- (d) histories
STEP_NAMES = ["i", "j", "k", "o", "i1", "i2", "i3", "j3", "o3", "i4", "n5",
              "a", "b", "h", "a3", "h3", "b4", "c7", "p", "q", "w3", "p4"]


@st.composite
def st_step(draw):
    op = draw(st.sampled_from(["get", "get", "generic", "generic",
                               "subst_generic", "subst_contracted"]))
    if op == "get":
        n = draw(st.integers(1, 4))
        names = [draw(st.sampled_from(STEP_NAMES)) for _ in range(n)]
        spins = [draw(st.sampled_from(["", "", "a", "b"])) for _ in range(n)]
        return {"op": "get", "names": names, "spins": spins}
    if op == "generic":
        counts = {}
        for _ in range(draw(st.integers(1, 3))):
            key = draw(st.sampled_from(["occ", "virt", "general", "occ_a",
                                        "occ_b", "virt_a", "virt_b",
                                        "general_a"]))
            counts[key] = draw(st.integers(0, 9))
        return {"op": "generic", "counts": counts}
    cfg = Cfg(max_obj=3, max_terms=1, max_target=2, allow_hyper=False)
    base = draw(st_expr_case(cfg))
    return {"op": op, "term": base["terms"][0], "targets": base["targets"],
            "explicit": base["explicit"]}


@st.composite
def st_history_case(draw):
    steps = draw(st.lists(st_step(), min_size=2, max_size=12))
    return {"sub": "history", "steps": steps}


def reset_registry():
    Singleton._instances.pop(Indices, None)


def run_history(case, r):
    reset_registry()
    reg = Indices()
    seen = {}     # (name, spin) -> object
    explicit_hi = False
    generic_after = False
    for k, step in enumerate(case["steps"]):
        tag = f"/step{k}:{step['op']}"
        if step["op"] == "get":
            if len(step["names"]) != len(step["spins"]):
                raise BadCase("names/spins")
            ok, res = lib_call(r, "get_symbols", get_symbols,
                               list(step["names"]), list(step["spins"]))
            if not ok:
                return
            for nm, sp_, s_ in zip(step["names"], step["spins"], res):
                space = [s for s, cs in ALPHABET.items() if nm[0] in cs][0]
                if s_.name != nm or s_.spin != sp_ or s_.space != space:
                    r.fail("wrong_symbol", f"requested ({nm},{sp_}) got "
                           f"{s_!r} space {s_.space} spin {s_.spin}")
                if (nm, sp_) in seen and seen[(nm, sp_)] is not s_:
                    r.fail("not_identical", f"second request of ({nm},{sp_})"
                           " returned a different object")
                seen[(nm, sp_)] = s_
                if nm[1:] and int(nm[1:]) >= 3:
                    explicit_hi = True
        elif step["op"] == "generic":
            ok, res = lib_call(r, "get_generic_indices",
                               lambda: reg.get_generic_indices(**step["counts"]))
            if not ok:
                return
            if explicit_hi:
                generic_after = True
            for key, n in step["counts"].items():
                space, _, sp_ = key.partition("_")
                lst = res.get((space, sp_), [])
                if len(lst) != n:
                    r.fail("generic_count", f"{key}={n} returned {lst}")
                for s_ in lst:
                    if s_.space != space or s_.spin != sp_:
                        r.fail("generic_class", f"{key}: {s_!r}")
                    if (s_.name, sp_) in seen:
                        r.fail("generic_not_fresh", f"{key}: {s_.name} was "
                               f"handed out before (history step {k})")
                    seen[(s_.name, sp_)] = s_
                if len(set(lst)) != len(lst):
                    r.fail("generic_duplicates", f"{lst}")
        else:
            t = build_term(step["term"])
            if t == 0:
                continue
            for i in S(t).atoms(Index):
                seen.setdefault((i.name, i.spin), i)
            targets = tuple(sorted(syms(step["targets"]), key=idx_key))
            for i in targets:
                seen.setdefault((i.name, i.spin), i)
            kw = {"target_idx": list(targets)} if step["explicit"] else {}
            e = Expr(t, **kw)
            generic = step["op"] == "subst_generic"
            seen_names = set(seen)
            fn = (lambda: e.terms[0].substitute_with_generic(return_sympy=True)) \
                if generic else \
                (lambda: e.terms[0].substitute_contracted(return_sympy=True))
            ok, out = lib_call(r, step["op"], fn)
            if not ok:
                return
            if explicit_hi and generic:
                generic_after = True
            check_renaming(r, case, e.sympy, out, targets, generic,
                           seen_names, tag="/history")
            for i in S(out).atoms(Index):
                if (i.name, i.spin) in seen and seen[(i.name, i.spin)] is not i:
                    r.fail("not_identical", f"{i!r} in the output of "
                           f"{step['op']} is not the registered object")
                seen[(i.name, i.spin)] = i
        # invariants after every step
        for (nm, sp_), obj in seen.items():
            again = get_symbols([nm], sp_ if sp_ else None)[0]
            if again is not obj:
                r.fail("not_identical", f"({nm},{sp_}) after step {k}")
                return
            if not reg.is_cached_index(obj):
                r.fail("not_cached", f"({nm},{sp_}) after step {k}")
                return
        if r.fails:
            return
    r.sample = "history: " + "; ".join(
        s_["op"] + (str(s_.get("names", s_.get("counts", ""))))
        for s_ in case["steps"])[:400]
    r.nontrivial = generic_after
    r.cls("history", f"steps={min(len(case['steps']), 12)}")


def run_case(case):
    r = R()
    sub = case.get("sub")
    if sub == "map":
        run_map(case, r)
    elif sub == "perm":
        run_perm(case, r)
    elif sub == "rename":
        run_rename(case, r)
    elif sub == "history":
        run_history(case, r)
    else:
        raise BadCase("unknown sub case")
    return r


def strategy(tier):
    return st.one_of(st_map_case(), st_perm_case(), st_rename_case(),
                     st_history_case(), st_rename_case(),
                     st_rename_big_case())


def run_shard(col, shard, nshards, seed, tier):
    drive(strategy(tier), run_case, N_EXAMPLES[tier], seed * 1000 + shard,
          col)


def self_test():
    common.self_test_model()
    assert doc_sequence("occ", 9)[:9] == list("ijklmno") + ["i1", "j1"]
