"""C11 - expanding, factoring and reducing intermediates are mutually
consistent."""
import itertools

import numpy as np
from hypothesis import strategies as st
from sympy import S, Add, Rational

from adcgen import (Expr, Intermediates, reduce_expr, factor_intermediates)
from adcgen.indices import get_symbols, Index
from adcgen.sympy_objects import SymbolicTensor, NonSymmetricTensor

from ..gen import (BadCase, ALPHABET, build_term, syms, term_label_count,
                   label_class)
from ..model import Model, evaluate, P, ModelResample, idx_key
from ..rspt import Hamiltonian, RSPT, density_series
from ..runner import R, drive, lib_call
from .. import common, fock

ID = "C11"
RULE = ("Hypothesis: real-basis expressions = 1-3 terms of rational "
        "prefactor x free tensors x registered intermediate tensors (t1, t2, "
        "t3 amplitudes, p2/p3 density blocks, t2eri1-7/A/B, t2sq) x "
        "antisymmetrised integrals with constructed index wiring (scalar "
        "sums or a single term with free indices); requests: "
        "expand_intermediates(fully|once), reduce_expr, "
        "factor_intermediates(generated subset and order of types/names, "
        "max_order) applied to the expanded or reduced form, or to the "
        "expanded form of a long intermediate (t2_2, t1_2, p0_2) in which one "
        "generated term got a deviating prefactor (factor_perturbed), or of a "
        "single-term intermediate plus denominator-free copies of its "
        "expanded terms (factor_passthrough); multi-term inputs may hold a "
        "low-order term without any intermediate. Oracle: value on "
        "a canonical-HF F_p model in which every intermediate tensor takes "
        "the value of its registered definition (amplitudes/densities from "
        "RSPT, composite intermediates by evaluating their definitions "
        "once). Non-trivial: output differs from the input and holds >= 1 "
        "intermediate (factoring) / none (expansion, reduction); an order-2 "
        "or multi-term intermediate is involved.")
BUDGET = {"quick": 110, "thorough": 2400}
N_EXAMPLES = {"quick": 9, "thorough": 80}
CASE_TIMEOUT = {"quick": 30, "thorough": 600}
ASSUMPTIONS = ["RuntimeError 'Ambiguous signs' raised by the fraction "
               "algebra's own validation is a refusal (as in C13)",
               "RE residual intermediates (which factor to a placeholder "
               "'Zero' that only vanishes on-shell) are not requested"]

# name, kind, upper spaces, lower spaces, bra-ket symmetry
TEMPLATES = [
    ("t1", "T", "vv", "oo", 0), ("t1", "T", "vv", "oo", 0),
    ("t2", "T", "v", "o", 0), ("t2", "T", "vv", "oo", 0),
    ("t2", "T", "vvv", "ooo", 0),
    ("p2", "A", "o", "o", 1), ("p2", "A", "v", "v", 1),
    ("t2eri1", "A", "oo", "ov", 0), ("t2eri2", "N", "ooov", "", 0),
    ("t2eri3", "A", "oo", "vv", 0), ("t2eri4", "N", "oovv", "", 0),
    ("t2eri5", "A", "oo", "vv", 0), ("t2eri6", "A", "ov", "vv", 0),
    ("t2eri7", "N", "ovvv", "", 0), ("t2eriA", "A", "oo", "ov", 0),
    ("t2eriB", "A", "ov", "vv", 0), ("t2sq", "A", "ov", "ov", 1),
]
PLAIN = [("V", "A", "oo", "vv", 1), ("V", "A", "ov", "ov", 1),
         ("V", "A", "oo", "ov", 1), ("V", "A", "ov", "vv", 1),
         ("V", "A", "oo", "oo", 1), ("V", "A", "vv", "vv", 1),
         ("x", "N", "ov", "", 0), ("x", "N", "oo", "", 0),
         ("Y", "T", "v", "o", 0), ("z", "N", "o", "", 0),
         ("z", "N", "v", "", 0)]
SP = {"o": "occ", "v": "virt"}


@st.composite
def st_term(draw, n_target, tier="thorough", fixed_objs=None):
    objs = []
    n_itmd = draw(st.integers(1, 2))
    templ = TEMPLATES if tier == "thorough" else \
        [t for t in TEMPLATES if not (t[0] == "t2" and len(t[2]) == 3)
         and t[0] not in ("t2eriA", "t2eriB")]
    if fixed_objs is not None:
        objs = list(fixed_objs)
        n_itmd = 0
    for _ in range(n_itmd):
        objs.append(draw(st.sampled_from(templ)))
    for _ in range(draw(st.integers(0, 2)) if fixed_objs is None else 0):
        objs.append(draw(st.sampled_from(PLAIN)))
    descs = []
    slots = []
    for oi, (name, kind, up, lo, bk) in enumerate(objs):
        descs.append({"k": kind, "name": name, "u": [None] * len(up),
                      "l": [None] * len(lo), "bk": 0, "exp": 1})
        for pos, c in enumerate(up):
            slots.append((oi, "u", pos, c))
        for pos, c in enumerate(lo):
            slots.append((oi, "l", pos, c))
    order = draw(st.permutations(range(len(slots))))
    slots = [slots[k] for k in order]
    names = {c: list(draw(st.permutations(list(ALPHABET[SP[c]])))) +
             [x + "1" for x in ALPHABET[SP[c]]] for c in "ov"}
    label = {}
    targets = []
    for s in slots[:n_target]:
        lbl = names[s[3]].pop()
        label[s[:3]] = lbl
        targets.append(lbl)
    rest = slots[n_target:]
    for c in "ov":
        lst = [s for s in rest if s[3] == c]
        while lst:
            s = lst.pop(0)
            partner = None
            for cand in lst:
                same_grp = cand[0] == s[0] and cand[1] == s[1] and \
                    descs[s[0]]["k"] in ("A", "T")
                if not same_grp:
                    partner = cand
                    break
            lbl = names[c].pop()
            label[s[:3]] = lbl
            if partner is None:
                descs.append({"k": "N", "name": "z", "u": [lbl], "l": [],
                              "bk": 0, "exp": 1})
            else:
                lst.remove(partner)
                label[partner[:3]] = lbl
    for (oi, grp, pos), lbl in label.items():
        descs[oi][grp][pos] = lbl
    p = draw(st.sampled_from([1, 1, -1, 2, 3, -5]))
    q = draw(st.sampled_from([1, 1, 2, 4]))
    return {"pref": [p, q], "sqrt": 0, "syms": [], "objs": descs}, targets


@st.composite
def st_num_case(draw):
    """orbital-energy numerators over (squared) amplitudes - what reduce_expr
    meets after bringing terms with equal integrals onto a common
    denominator: t1_{ijab}^n [t1_{ikac}^m x_{jkbc}] (bracket(s) + c e_q) w_q"""
    i, j, k, a, b, c = "i2", "j2", "k2", "a2", "b2", "c2"
    objs = [{"k": "T", "name": "t1", "u": [a, b], "l": [i, j], "bk": 0,
             "exp": draw(st.sampled_from([1, 2, 2]))}]
    num = [[i, 1], [j, 1], [a, -1], [b, -1]]
    shape = draw(st.sampled_from(["rest", "rest", "two_brackets", "exact"]))
    targets = []
    if shape == "two_brackets":
        objs.append({"k": "T", "name": "t1", "u": [a, c], "l": [i, k],
                     "bk": 0, "exp": draw(st.sampled_from([1, 2]))})
        objs.append({"k": "N", "name": "x", "u": [j, k, b, c], "l": [],
                     "bk": 0, "exp": 1})
        num += [[i, 1], [k, 1], [a, -1], [c, -1]]
    else:
        q = draw(st.sampled_from([k, c]))
        if draw(st.booleans()):
            objs.append({"k": "N", "name": "z", "u": [q], "l": [], "bk": 0,
                         "exp": 1})
        else:
            targets = [q]
        if shape == "rest":
            num.append([q, draw(st.sampled_from([1, -1, 2]))])
        elif targets:
            objs.append({"k": "N", "name": "z", "u": [q], "l": [], "bk": 0,
                         "exp": 1})
    p = draw(st.sampled_from([1, 1, -1, 2, 3]))
    q_ = draw(st.sampled_from([1, 2, 4]))
    term = {"pref": [p, q_], "sqrt": 0, "syms": [], "objs": objs, "num": num}
    req = draw(st.sampled_from(["reduce", "reduce", "factor_reduced",
                                "factor_expanded"]))
    if req == "factor_expanded":
        # instead of a numerator: extra powers of the amplitude's own
        # denominator bracket (V/D^2, V^2/D^3 ... after the expansion)
        term["num"] = []
        term["den"] = [[[i, j], [a, b], draw(st.sampled_from([1, 1, 2]))]]
    return {"terms": [term], "targets": sorted(targets),
            "req": req,
            "itmds": draw(st.sampled_from([None, ["t2_1"], ["t_amplitude"]])),
            "max_order": None,
            "size": draw(st.sampled_from([[2, 2], [3, 2], [2, 3]])),
            "mseed": draw(st.integers(0, 2**31))}


LONG = [("t2", "T", "vv", "oo", 0), ("t2", "T", "vv", "oo", 0),
        ("t2", "T", "v", "o", 0), ("p2", "A", "o", "o", 1),
        ("p2", "A", "v", "v", 1)]
LONG_NAMES = {("t2", 2): "t2_2", ("t2", 1): "t1_2", ("t2", 3): "t3_2",
              ("p2", "o"): "p0_2_oo", ("p2", "v"): "p0_2_vv"}


@st.composite
def st_pert_case(draw, tier):
    """a written-out multi-term intermediate in which ONE expanded term has a
    deviating prefactor (factor_intermediates then has to factor the
    intermediate with 'mixed prefactors' and add a compensating term)"""
    if draw(st.integers(0, 2)) == 0:
        # one index group of the doubles amplitude contracted with one group
        # of an antisymmetrised integral, everything else free: the product
        # keeps a permutational symmetry, expanded terms collapse pairwise
        # ('spread' over two positions of the intermediate)
        grp = draw(st.sampled_from(["u", "l"]))
        vsp = draw(st.sampled_from(["oovv", "oooo", "vvvv"]))
        c_ = "v" if grp == "u" else "o"
        vg = [g for g, sp in (("u", vsp[:2]), ("l", vsp[2:])) if sp == c_ * 2]
        if vg:
            vgrp = draw(st.sampled_from(vg))
            occ = [x + "1" for x in ALPHABET["occ"]] + \
                list(draw(st.permutations(list(ALPHABET["occ"]))))
            virt = [x + "1" for x in ALPHABET["virt"]] + \
                list(draw(st.permutations(list(ALPHABET["virt"]))))
            pool = {"o": occ, "v": virt}
            shared = [pool[c_].pop(), pool[c_].pop()]
            t2 = {"k": "T", "name": "t2", "bk": 0, "exp": 1,
                  "u": [pool["v"].pop(), pool["v"].pop()],
                  "l": [pool["o"].pop(), pool["o"].pop()]}
            t2[grp] = list(shared)
            V = {"k": "A", "name": "V", "bk": 1, "exp": 1,
                 "u": [pool[vsp[0]].pop(), pool[vsp[1]].pop()],
                 "l": [pool[vsp[2]].pop(), pool[vsp[3]].pop()]}
            V[vgrp] = list(draw(st.permutations(shared)))
            tg = [l for o in (t2, V) for l in o["u"] + o["l"]
                  if l not in shared]
            p = draw(st.sampled_from([1, -1, 2, 3]))
            term = {"pref": [p, draw(st.sampled_from([1, 2, 4]))], "sqrt": 0,
                    "syms": [], "objs": [t2, V]}
            return {"terms": [term], "targets": sorted(tg),
                    "req": "factor_perturbed",
                    "pert": [draw(st.integers(0, 11)),
                             draw(st.sampled_from([1, -1, 2, 3])),
                             draw(st.sampled_from([1, 1, 2]))],
                    "itmds": draw(st.sampled_from([["t2_2"], ["t2_1", "t2_2"],
                                                   ["t_amplitude"], None])),
                    "max_order": None,
                    "size": draw(st.sampled_from([[2, 2], [3, 2], [2, 3]])),
                    "mseed": draw(st.integers(0, 2**31))}
    itm = draw(st.sampled_from(
        LONG + ([("t2", "T", "vvv", "ooo", 0)] if tier == "thorough" else [])))
    objs = [itm]
    if draw(st.integers(0, 3)) != 0:
        objs.append(draw(st.sampled_from(PLAIN[:8])))
    n_target = draw(st.integers(0, 4))
    t, tg = draw(st_term(n_target, tier, fixed_objs=objs))
    name = LONG_NAMES[(itm[0], len(itm[2]) if itm[0] == "t2" else itm[2][0])]
    sel = draw(st.sampled_from([[name], ["t2_1", name], ["t2_1", name],
                                ["t_amplitude", "mp_density"], None]))
    return {"terms": [t], "targets": sorted(tg), "req": "factor_perturbed",
            "pert": [draw(st.integers(0, 11)),
                     draw(st.sampled_from([1, -1, 2, 1, 3])),
                     draw(st.sampled_from([1, 1, 2]))],
            "itmds": sel, "max_order": None,
            "size": draw(st.sampled_from([[2, 2], [3, 2], [2, 3], [3, 3]])),
            "mseed": draw(st.integers(0, 2**31))}


SHORT = [t for t in TEMPLATES if t[0] in ("p2", "t2sq") or
         (t[0].startswith("t2eri") and t[0] not in ("t2eriA", "t2eriB"))]
SHORT_NAMES = dict(COMPOSITE_NAMES := {
    "t2eri1": "t2eri_1", "t2eri2": "t2eri_2", "t2eri3": "t2eri_3",
    "t2eri4": "t2eri_4", "t2eri5": "t2eri_5", "t2eri6": "t2eri_6",
    "t2eri7": "t2eri_7", "t2sq": "t2sq"})


@st.composite
def st_pass_case(draw, tier):
    """a single-term intermediate written out, plus copies of its expanded
    terms WITHOUT their orbital-energy denominators (same integral blocks,
    cannot be part of the intermediate): they have to pass through the
    factorisation unchanged"""
    itm = draw(st.sampled_from(SHORT))
    objs = [itm]
    if draw(st.booleans()):
        objs.append(draw(st.sampled_from(PLAIN[6:])))
    t, tg = draw(st_term(draw(st.integers(0, 2)), tier, fixed_objs=objs))
    if itm[0] == "p2":
        name = "p0_2_oo" if itm[2] == "o" else "p0_2_vv"
        typ = "mp_density"
    else:
        name, typ = SHORT_NAMES[itm[0]], "misc"
    sel = draw(st.sampled_from([[name], [name], [typ], [name, "t2_1"]]))
    return {"terms": [t], "targets": sorted(tg), "req": "factor_passthrough",
            "pert": [0, draw(st.sampled_from([1, -1, 2, 3])),
                     draw(st.sampled_from([1, 1, 2]))],
            "itmds": sel, "max_order": None,
            "size": draw(st.sampled_from([[2, 2], [3, 2], [2, 3]])),
            "mseed": draw(st.integers(0, 2**31))}


@st.composite
def st_multi_case(draw, tier):
    """two perturbation orders in one expression: a product of two
    second-order amplitudes (4th order) next to a low-order term without any
    intermediate; multi-term intermediates are factored in several passes"""
    so = [("t2", "T", "v", "o", 0), ("t2", "T", "v", "o", 0),
          ("t2", "T", "vv", "oo", 0)]
    objs = [draw(st.sampled_from(so)), draw(st.sampled_from(so[:2]))]
    if draw(st.booleans()):
        objs.append(draw(st.sampled_from(PLAIN[6:])))
    t1_, _ = draw(st_term(0, tier, fixed_objs=objs))
    extra = draw(st.sampled_from([
        [PLAIN[0], PLAIN[6], PLAIN[6]], [PLAIN[0], PLAIN[0]],
        [PLAIN[1], PLAIN[6], PLAIN[6]], [PLAIN[0], PLAIN[7], PLAIN[6],
                                         PLAIN[6]]]))
    t2_, _ = draw(st_term(0, tier, fixed_objs=extra))
    sel = draw(st.sampled_from([["t1_2"], ["t2_2"], ["t1_2", "t2_2"],
                                ["t2_1", "t1_2", "t2_2"], ["t_amplitude"]]))
    return {"terms": [t1_, t2_], "targets": [], "req": "factor_expanded",
            "itmds": sel, "max_order": draw(st.sampled_from([None, None, 2])),
            "size": draw(st.sampled_from([[2, 2], [3, 2], [2, 3]])),
            "mseed": draw(st.integers(0, 2**31))}


@st.composite
def st_case(draw, tier):
    if draw(st.integers(0, 4)) == 0:
        return draw(st_num_case())
    if draw(st.integers(0, 6)) == 0:
        return draw(st_multi_case(tier))
    if draw(st.integers(0, 5)) == 0:
        return draw(st_pass_case(tier))
    if draw(st.integers(0, 3)) == 0:
        return draw(st_pert_case(tier))
    n_terms = draw(st.sampled_from([1, 1, 2, 3]))
    n_target = draw(st.integers(0, 2)) if n_terms == 1 else 0
    terms = []
    targets = []
    for _ in range(n_terms):
        t, tg = draw(st_term(n_target, tier))
        terms.append(t)
        targets = tg
    if n_target == 0 and draw(st.integers(0, 2)) == 0:
        # a low-order term without any intermediate (no denominator after
        # the expansion): has to pass through every request unchanged
        extra = draw(st.sampled_from([
            [PLAIN[0], PLAIN[0]], [PLAIN[0], PLAIN[0], PLAIN[7]],
            [PLAIN[0], PLAIN[6], PLAIN[6]], [PLAIN[0], PLAIN[1], PLAIN[0]],
            [PLAIN[2], PLAIN[2]], [PLAIN[3], PLAIN[3], PLAIN[7]]]))
        t, _ = draw(st_term(0, tier, fixed_objs=extra))
        terms.append(t)
    req = draw(st.sampled_from(["expand_fully", "expand_once", "reduce",
                                "factor_expanded", "factor_expanded",
                                "factor_reduced"]))
    pool = ["t_amplitude", "mp_density", "misc", "t2_1", "t1_2", "t2_2",
            "t3_2", "p0_2_oo", "p0_2_vv", "t2eri_1", "t2eri_3", "t2eri_4",
            "t2eri_5", "t2sq", "t2eri_A"]
    sel = list(draw(st.permutations(pool)))[:draw(st.integers(1, 4))]
    return {"terms": terms, "targets": sorted(targets), "req": req,
            "itmds": sel if draw(st.integers(0, 3)) else None,
            "max_order": draw(st.sampled_from([None, None, 1, 2])),
            "size": draw(st.sampled_from([[2, 2], [3, 2], [2, 3], [3, 3]])),
            "mseed": draw(st.integers(0, 2**31))}


def strategy(tier):
    return st_case(tier)


class AmbiguousSigns(Exception):
    pass


ITM = Intermediates().available
COMPOSITE = {"t2eri1": "t2eri_1", "t2eri2": "t2eri_2", "t2eri3": "t2eri_3",
             "t2eri4": "t2eri_4", "t2eri5": "t2eri_5", "t2eri6": "t2eri_6",
             "t2eri7": "t2eri_7", "t2eriA": "t2eri_A", "t2eriB": "t2eri_B",
             "t2sq": "t2sq"}
_DEF = {}


def definition(name):
    if name not in _DEF:
        it = ITM[name]
        tgt = tuple(get_symbols(it.default_idx))
        ex = Expr(it.expand_itmd(return_sympy=True, fully_expand=True),
                  real=True).expand().sympy
        T = it.tensor(return_sympy=True)
        _DEF[name] = (tgt, ex, T)
    return _DEF[name]


def install_model(case, attempt):
    no, nv = case["size"]
    m = Model(case["mseed"] + 1000 * attempt, no, nv)
    ham = Hamiltonian(m, "mp", canonical=True)
    pt = RSPT(ham, 3)
    pt.install_amplitudes(max_rank=3)
    N = m.N
    D = density_series(pt, N)
    for n in (2, 3):
        arr = D[n].copy()
        if n == 2:
            arr[:no, no:] = 0
            arr[no:, :no] = 0
        m.set_tensor(f"p{n}", 1, 1, arr, kind="anti", bk=1)
    for tname, iname in COMPOSITE.items():
        tgt, ex, T = definition(iname)
        val = evaluate(m, ex, tgt)
        full = np.zeros((N,) * len(tgt), dtype=np.int64)
        full[np.ix_(*[m.positions(s) for s in tgt])] = val
        if hasattr(T, "upper"):
            # tensor index order = upper + lower of the canonical object
            Tobj = -T if T.could_extract_minus_sign() else T
            order_ = list(Tobj.upper) + list(Tobj.lower)
            perm = [tgt.index(s) for s in order_]
            full = np.transpose(full, perm)
            if T.could_extract_minus_sign():
                full = (-full) % P
            m.set_tensor(tname, len(Tobj.upper), len(Tobj.lower), full,
                         kind="anti", bk="any")
            m.meta[(tname, len(Tobj.upper), len(Tobj.lower))] = ("any", "any")
        else:
            m.set_tensor(tname, 0, len(tgt), full, kind="nonsym")
    return m


def has_itmd(expr):
    names = {t.name for t in S(expr).atoms(SymbolicTensor)}
    return bool(names & ({"t1", "t2", "t3", "p2", "p3"} | set(COMPOSITE)))


def run_case(case):
    r = R()
    built = [build_term(t) for t in case["terms"]]
    if any(b == 0 for b in built):
        raise BadCase("vanishing term")
    for k, t in enumerate(case["terms"]):
        for occ_, virt_, ex_ in t.get("den", []):
            br = Add(*[NonSymmetricTensor("e", (s_,)) for s_ in syms(virt_)]) \
                - Add(*[NonSymmetricTensor("e", (s_,)) for s_ in syms(occ_)])
            built[k] = built[k] / br**int(ex_)
        if t.get("num"):
            built[k] = built[k] * Add(*[
                cf * NonSymmetricTensor("e", (s_,)) for (lbl, cf), s_ in
                zip(t["num"], syms([x[0] for x in t["num"]]))])
    targets = tuple(sorted(syms(case["targets"]), key=idx_key))
    e = Expr(Add(*built), real=True, sym_tensors=["p2", "p3", "t2sq"],
             target_idx=list(targets))
    if e.sympy == 0:
        raise BadCase("zero")
    req = case["req"]
    r.sample = (f"{req}({e}) itmds={case['itmds']} max_order="
                f"{case['max_order']} targets={targets}")
    fkw = dict(types_or_names=case["itmds"], max_order=case["max_order"])

    ref = [e]

    def pipeline():
        if req == "factor_perturbed":
            x = e.copy().expand_intermediates(fully_expand=True).expand()
            k, p_, q_ = case["pert"]
            tk = x.terms[k % len(x.terms)]
            x2 = Expr(x.sympy + Rational(p_, q_) * tk.sympy, real=True,
                      sym_tensors=["p2", "p3", "t2sq"],
                      target_idx=list(targets))
            ref[0] = x2
            ref.append(x)
            return factor_intermediates(x2.copy(), **fkw)
        if req == "factor_passthrough":
            from adcgen import EriOrbenergy
            x = e.copy().expand_intermediates(fully_expand=True).expand()
            _, p_, q_ = case["pert"]
            bare = S.Zero
            for tk in x.terms:
                eo = EriOrbenergy(tk)
                bare += eo.pref * eo.eri.sympy
            x2 = Expr(x.sympy + Rational(p_, q_) * bare, real=True,
                      sym_tensors=["p2", "p3", "t2sq"],
                      target_idx=list(targets))
            ref[0] = x2
            return factor_intermediates(x2.copy(), **fkw)
        if req == "expand_fully":
            return e.copy().expand_intermediates(fully_expand=True)
        if req == "expand_once":
            return e.copy().expand_intermediates(fully_expand=False)
        if req == "reduce":
            return reduce_expr(e.copy())
        if req == "factor_expanded":
            x = e.copy().expand_intermediates(fully_expand=True).expand()
            return factor_intermediates(x, **fkw)
        x = reduce_expr(e.copy())
        return factor_intermediates(x, **fkw)
    # the factorisation refuses (RuntimeError 'Invalid contracted itmd
    # indices ...') candidate matches it cannot handle instead of skipping
    # them: a deliberate guard, counted as refusal
    refusals = (NotImplementedError,)
    if req.startswith("factor"):
        refusals += (RuntimeError,)
    # the fraction algebra refuses brackets in which the occupied (virtual)
    # orbital energies do not share one sign (RuntimeError 'Ambiguous signs',
    # the library's own validation, cf. C13)
    def guarded():
        try:
            return pipeline()
        except RuntimeError as exc:
            if "Ambiguous signs" in str(exc):
                raise AmbiguousSigns(str(exc)) from None
            raise
    refusals += (AmbiguousSigns,)
    ok, out = lib_call(r, req, guarded, refusals=refusals)
    if not ok:
        return r
    for attempt in range(4):
        try:
            m = install_model(case, attempt)
            v0 = evaluate(m, ref[0].sympy, targets)
            v1 = evaluate(m, out.sympy, targets)
            break
        except ModelResample:
            r.resampled += 1
    else:
        raise ModelResample("no regular model")
    if not (v0 == v1).all():
        sub = f"value/{req}"
        if req == "factor_perturbed":
            # finding F31 (fixed in eed98ac; the tag is kept): if expanded terms of the written-out
            # intermediate are pairwise equal in value (the product has a
            # permutational symmetry over free indices, or is identically
            # zero), a term is matched onto positions of the intermediate it
            # does not hold (the position is not re-mapped when the
            # intermediate's own symmetry reorders free indices) and the
            # compensating terms are wrong
            vals = [evaluate(m, t.sympy, targets) for t in ref[1].terms]
            spread = any(
                vals[a].any() and ((vals[a] == vals[b]).all() or
                                   ((vals[a] + vals[b]) % P == 0).all())
                for a in range(len(vals)) for b in range(a + 1, len(vals)))
            if spread:
                sub += "_spread_F31"
        r.fail(sub, f"{r.sample}" + (
            f"\n input {str(ref[0])[:900]}" if ref[0] is not e else "") +
            f"\n -> {str(out)[:600]}")
    changed = out.sympy != ref[0].sympy
    if req.startswith("factor"):
        r.nontrivial = changed and has_itmd(out.sympy) and \
            bool((v0 != 0).any())
    else:
        r.nontrivial = changed and bool((v0 != 0).any())
    r.cls(req, "result_has_itmd" if has_itmd(out.sympy) else "no_itmd_left")
    if any(all(o["name"] in ("V", "x", "z", "Y") for o in t["objs"])
           for t in case["terms"]):
        r.cls("term_without_intermediate")
    if any(t.get("num") for t in case["terms"]):
        r.cls("orbital_energy_numerator")
    if any(t.get("den") for t in case["terms"]):
        r.cls("extra_denominator_power")
    return r


# fixed mixed-prefactor cases: -2 t2^{gh}_{no} x_{mn} z_g z_m written out
# (no symmetry left in the product), each of its six expanded terms in turn
# with a deviating prefactor, t2_1 factored before t2_2 or not
_PERT_BASE = {"terms": [{"pref": [2, 1], "sqrt": 0, "syms": [], "objs": [{"k": "T", "name": "t2", "u": ["g1", "h1"], "l": ["o1", "n1"], "bk": 0, "exp": 1}, {"k": "N", "name": "x", "u": ["m1", "n1"], "l": [], "bk": 0, "exp": 1}, {"k": "N", "name": "z", "u": ["m1"], "l": [], "bk": 0, "exp": 1}, {"k": "N", "name": "z", "u": ["g1"], "l": [], "bk": 0, "exp": 1}]}], "targets": ["h1", "o1"], "req": "factor_perturbed", "max_order": None, "size": [2, 3], "mseed": 77}


def fixed_cases():
    out = []
    for k in range(6):
        for sel in (["t2_1", "t2_2"], ["t_amplitude", "mp_density"],
                    ["t2_2"]):
            out.append(dict(_PERT_BASE, pert=[k, 3, 2], itmds=sel))
    return out


def run_shard(col, shard, nshards, seed, tier):
    for case in fixed_cases()[shard::nshards]:
        col.run(case, run_case)
    drive(strategy(tier), run_case, N_EXAMPLES[tier], seed * 1000 + shard,
          col)


SHRINK = False


def self_test():
    common.self_test_model()
    fock.self_test()
