"""C14 - removing or differentiating by a tensor undoes a contraction
exactly."""
import itertools
from collections import Counter
from math import factorial

import numpy as np
from hypothesis import strategies as st
from sympy import S, Add, Mul, Pow

from adcgen import Expr, remove_tensor
from adcgen.derivative import derivative
from adcgen.indices import Index, get_symbols
from adcgen.sympy_objects import (AntiSymmetricTensor, SymmetricTensor,
                                  Amplitude, NonSymmetricTensor,
                                  KroneckerDelta, SymbolicTensor)

from ..gen import (Cfg, st_expr_case, build_term, syms, sym, label_class,
                   term_label_count, BadCase, doc_sequence, CAT_BY_NAME)
from ..model import (Model, evaluate, idx_key, P, einstein_target, inv, root,
                     perm_sign)
from ..runner import R, drive, lib_call
from .. import common

ID = "C14"
RULE = ("Hypothesis: sums of 1-3 products in which a designated tensor "
        "(AntiSymmetric bk 0/+1/-1, Symmetric, NonSymmetric, t-amplitude, "
        "ADC amplitude vector; ranks <= (2,2)) occurs once per term - or "
        "twice / squared inside one block - carrying summed and/or free "
        "indices, Einstein or explicit targets, several blocks per "
        "expression. Oracle (F_p, 2 models): sum_blocks w_b * sum_unrestricted "
        "T_b R_b == value(E) with w_b = (2 if bra-ket (anti)symmetric else "
        "1)/|G_b| (ordinary) or 1/sqrt|G_b| (ADC amplitude), |G_b| from the "
        "block's own class pattern; each R_b has the permutational symmetry "
        "of T_b; derivative: sum_blocks dT_b D_b == linear coefficient of "
        "s -> E(T + s dT), obtained by exact interpolation in F_p. "
        "Occurrences in different blocks within one term are outside the "
        "checked domain (excluded, counted). Non-trivial: rank >= 2, bra-ket "
        "symmetry, >= 2 occurrences, or a free index on the tensor.")
BUDGET = {"quick": 90, "thorough": 1500}
N_EXAMPLES = {"quick": 700, "thorough": 12000}
ASSUMPTIONS = ["tensor slots of a removed block are named by the documented "
               "rule: lowest index names that are no target names, ascending "
               "in the tensor's index order"]

DESIGNATED = ["d", "d", "B", "C", "R", "x", "t2", "X", "Y", "A"]
KIND_CLS = {"A": AntiSymmetricTensor, "S": SymmetricTensor, "T": Amplitude}


def cfg_for(name, rank):
    others = ["V", "f", "z", "y", "w", "t1", "delta"]
    return Cfg(rank_override={name: [tuple(rank)]},
               min_obj=2, max_obj=3, max_terms=3, max_target=3, max_exp=2,
               allow_general=False, allow_hyper=False, allow_symbols=False,
               spin_modes=[False, False, False, True], max_slots=10,
               names=[name] + others, weights={name: 2})


@st.composite
def st_case(draw):
    name = draw(st.sampled_from(DESIGNATED))
    rank = draw(st.sampled_from(CAT_BY_NAME[name][2]))
    if sum(rank) > 4:
        rank = (2, 2)
    op = draw(st.sampled_from(["remove", "remove", "derivative"]))
    cfg = cfg_for(name, rank)
    if op == "derivative" and draw(st.integers(0, 3)) != 0:
        cfg.max_target = 0    # a scalar functional, the typical use
        cfg.allow_explicit = False
    base = draw(st_expr_case(cfg))
    # make sure the designated tensor occurs in (almost) every term
    for t in base["terms"]:
        if not any(o["name"] == name for o in t["objs"]) and \
                draw(st.integers(0, 5)) != 0:
            # turn a carrier-compatible object into the designated tensor:
            # replace the first object of equal slot count, if any
            for o in t["objs"]:
                n_sl = len(o["u"]) + len(o.get("l", []))
                if n_sl == sum(rank) and o["k"] != "K" and o["exp"] == 1:
                    labels = o["u"] + o.get("l", [])
                    kind = CAT_BY_NAME[name][0]
                    o["k"], o["name"] = kind, name
                    o["bk"] = CAT_BY_NAME[name][3]
                    if kind == "N":
                        o["u"], o["l"] = labels, []
                    else:
                        o["u"], o["l"] = labels[:rank[0]], labels[rank[0]:]
                    break
    return {"name": name, "terms": base["terms"], "targets": base["targets"],
            "explicit": base["explicit"] or (op == "remove"
                                             and draw(st.booleans())),
            "spin": base["spin"],
            "op": op,
            "mseed": draw(st.integers(0, 2**31))}


def strategy(tier):
    return st_case()


def tensor_slots(base):
    """index tuple in the library's idx order + (n_first group)"""
    return tuple(base.idx)


def block_group_order(kind, upper_cls, lower_cls, bk):
    if kind == "N":
        return 1
    g = 1
    for grp in (upper_cls, lower_cls):
        for n in Counter(grp).values():
            g *= factorial(n)
    if bk and sorted(upper_cls) == sorted(lower_cls) and len(upper_cls) > 0:
        g *= 2
    return g


def make_block_tensor(kind, name, bk, nu, nl, block_cls, targets, chunk=0,
                      nchunks=1):
    """The canonical block tensor with the documented minimal names.
    block_cls: list of (space, spin) in the tensor's idx order.
    Returns (tensor object, idx list)."""
    per_cls = Counter(block_cls)
    names = {}
    for c, n in per_cls.items():
        tn = {t.name for t in targets if t.space_and_spin == c}
        seq = [x for x in doc_sequence(c[0], n * nchunks + len(tn) + 10)
               if x not in tn]
        names[c] = seq[chunk * n:(chunk + 1) * n]
    idx = []
    for c in block_cls:
        nm = names[c].pop(0)
        idx.append(get_symbols([nm], c[1] if c[1] else None)[0])
    if kind == "N":
        return NonSymmetricTensor(name, idx), idx
    if kind == "T":   # idx order: lower, upper
        lower, upper = idx[:nl], idx[nl:]
    else:
        upper, lower = idx[:nu], idx[nu:]
    return KIND_CLS[kind](name, upper, lower, bk), idx


def occurrences(term_desc, name):
    occ = []
    for o in term_desc["objs"]:
        if o["name"] == name:
            occ.extend([o] * o["exp"])
    return occ


def run_case(case):
    r = R()
    name = case["name"]
    kind, _, _, bk0 = CAT_BY_NAME[name]
    targets = tuple(sorted(syms(case["targets"]), key=idx_key))
    built = [build_term(t) for t in case["terms"]]
    if any(b == 0 for b in built):
        raise BadCase("vanishing term")
    kw = {"target_idx": list(targets)} if case["explicit"] else {}
    if case["op"] == "derivative" and case["explicit"]:
        kw = {}
        if any(sorted(l for l, n in term_label_count(t).items() if n == 1)
               != sorted(case["targets"]) for t in case["terms"]):
            raise BadCase("explicit targets needed")
    e = Expr(Add(*built), **kw)
    if e.sympy == 0 or len(e) != len(built):
        raise BadCase("terms merged")
    # occurrences / blocks per term (on the constructed objects)
    maxocc = 0
    for t in e.terms:
        blocks = set()
        n_occ = 0
        for o in t.objects:
            if o.name == name:
                blocks.add((o.space, o.spin))
                n_occ += o.exponent
        if len(blocks) > 1:
            r.excluded.append("occurrences_in_different_blocks")
            return r
        maxocc = max(maxocc, n_occ)
    if maxocc == 0:
        raise BadCase("designated tensor absent")
    # free / repeated indices on the designated tensor
    t_free = t_rep = False
    for t in case["terms"]:
        for o in t["objs"]:
            if o["name"] == name:
                labels = o["u"] + o.get("l", [])
                if any(l in case["targets"] for l in labels):
                    t_free = True
                if len(set(labels)) < len(labels):
                    t_rep = True
    t_exp = any(o.name == name and o.exponent >= 2 for t in e.terms
                for o in t.objects)
    if case["op"] == "derivative" and t_exp and not case.get("include_known"):
        r.excluded.append("F14_derivative_of_tensor_with_exponent")
        return r
    if not (case["explicit"] and case["op"] == "remove") and \
            not case.get("include_known"):
        # Einstein convention on the returned blocks: every index of the
        # removed tensor has to occur exactly once elsewhere (or be free);
        # otherwise (squared partner objects, hyper-contractions) the caller
        # has to provide the target indices explicitly
        for t in case["terms"]:
            cnt = term_label_count(t)
            for o in t["objs"]:
                if o["name"] == name and any(
                        cnt[l] > 2 for l in o["u"] + o.get("l", [])):
                    r.excluded.append("einstein_ambiguous_block_expression")
                    return r
    if case["op"] == "derivative" and t_free:
        # the meaning of a block-wise derivative is only clear when all
        # indices of the differentiated tensor are summed
        r.excluded.append("derivative_wrt_tensor_with_free_index")
        return r
    if t_rep and not (case["op"] == "remove" and case["explicit"]):
        # the deltas introduced for a repeated index make the Einstein
        # convention ambiguous on the returned block expression
        r.excluded.append("repeated_index_on_tensor_without_explicit_targets")
        return r
    if maxocc > 2:
        r.excluded.append("more_than_two_occurrences")
        return r
    spin = case["spin"]
    sizes = [(1, 1), (2, 1)] if spin else [(2, 2), (3, 2)]
    models = [Model(case["mseed"] + k, no, nv, spin=spin)
              for k, (no, nv) in enumerate(sizes)]
    r.sample = f"{case['op']}({e}, '{name}') targets={targets}"
    if case["op"] == "remove":
        check_remove(r, case, e, name, kind, targets, models)
    else:
        check_derivative(r, case, e, name, kind, targets, models)
    rank2 = any(len(o["u"]) + len(o.get("l", [])) >= 3 for t in case["terms"]
                for o in t["objs"] if o["name"] == name)
    on_target = any(l in case["targets"] for t in case["terms"]
                    for o in t["objs"] if o["name"] == name
                    for l in o["u"] + o.get("l", []))
    r.nontrivial = bool(rank2 or bk0 or maxocc >= 2 or on_target) and \
        not r.excluded
    r.cls(case["op"], f"tensor={name}", f"maxocc={maxocc}")
    if on_target:
        r.cls("target_on_tensor")
    if spin:
        r.cls("spin")
    return r


def block_info(key_block):
    """'oovv' or 'oovv_aabb' -> list of (space, spin) per slot"""
    if "_" in key_block:
        sp, spn = key_block.split("_")
    else:
        sp, spn = key_block, "n" * len(key_block)
    m = {"o": "occ", "v": "virt", "g": "general"}
    return [(m[c], "" if s == "n" else s) for c, s in zip(sp, spn)]


def free_indices(expr_obj, targets, explicit):
    if explicit and expr_obj.provided_target_idx is not None:
        return set(expr_obj.provided_target_idx)
    free = None
    for t in Add.make_args(S(expr_obj.sympy).expand()):
        if t == 0:
            continue
        f = set(einstein_target(t))
        if free is None:
            free = f
        elif f != free:
            raise _Inconsistent(f"terms with different free indices: {f} "
                                f"vs {free}")
    return free or set()


class _Inconsistent(Exception):
    pass


def ranks_of(case, name):
    for t in case["terms"]:
        for o in t["objs"]:
            if o["name"] == name:
                return len(o["u"]), len(o.get("l", []))
    raise BadCase("absent")


def check_remove(r, case, e, name, kind, targets, models):
    ok, res = lib_call(r, "remove_tensor", remove_tensor, e.copy(), name,
                       refusals=(NotImplementedError,))
    if not ok:
        return
    bk = CAT_BY_NAME[name][3]
    is_adc = name in ("X", "Y")
    recon = []   # (weight, expression)
    for key, R_b in res.items():
        if not isinstance(R_b, Expr):
            R_b = Expr(R_b, **e.assumptions)
        if key == ("none",):
            recon.append((1, R_b.sympy, None))
            continue
        if R_b.sympy == 0:
            continue
        if len(set(key)) != 1:
            r.fail("remove/mixed_block_key", f"{key}: {R_b}")
            return
        cls_list = block_info(key[0])
        nocc = len(key)
        try:
            free = free_indices(R_b, targets, case["explicit"])
        except _Inconsistent as exc:
            r.fail("remove/inconsistent_free_indices", f"{key}: {exc}")
            return
        S_new = free - set(targets)
        # rank split of this block
        rank = len(cls_list)
        nu_nl = None
        for t in case["terms"]:
            for o in t["objs"]:
                if o["name"] == name and len(o["u"]) + len(o.get("l", [])) == rank:
                    nu_nl = (len(o["u"]), len(o.get("l", [])))
        if nu_nl is None:
            r.fail("remove/unknown_block", f"{key}")
            return
        nu, nl = nu_nl
        prod = S.One
        used = set()
        gtot = 1
        for c_ in range(nocc):
            T, idx = make_block_tensor(kind, name, bk, nu, nl, cls_list,
                                       targets, chunk=c_, nchunks=nocc)
            if T == 0:
                raise BadCase("block tensor vanishes")
            prod *= T
            used |= set(idx)
            if kind == "N":
                g = 1
            elif kind == "T":
                g = block_group_order(kind, cls_list[nl:], cls_list[:nl], bk)
            else:
                g = block_group_order(kind, cls_list[:nu], cls_list[nu:], bk)
            gtot *= g
        if used != S_new:
            r.fail("remove/tensor_index_names",
                   f"block {key}: the block expression exposes the new free "
                   f"indices {sorted(map(str, S_new))}, the documented "
                   f"minimal names are {sorted(map(str, used))} ({R_b})")
            return
        if is_adc:
            w = inv(root(gtot))
        else:
            w = pow(2 if bk else 1, nocc, P) * inv(gtot) % P
        recon.append((w, R_b.sympy, prod))
        # symmetry of the block expression
        if nocc == 1 and kind != "N":
            T, idx = make_block_tensor(kind, name, bk, nu, nl, cls_list,
                                       targets)
            first = idx[:nl] if kind == "T" else idx[:nu]
            second = idx[nl:] if kind == "T" else idx[nu:]
            ft = tuple(sorted(free, key=idx_key))
            sgn_anti = kind in ("A", "T")
            for grp in (first, second):
                for a, b in itertools.combinations(grp, 2):
                    if a.space_and_spin != b.space_and_spin:
                        continue
                    for m in models[:1]:
                        v = evaluate(m, R_b.sympy, ft)
                        vs = np.swapaxes(v, ft.index(a), ft.index(b))
                        exp = (-v if sgn_anti else v) % P
                        if not (vs % P == exp).all():
                            r.fail("remove/block_symmetry",
                                   f"block {key} of {e}: {R_b} is not "
                                   f"{'anti' if sgn_anti else ''}symmetric "
                                   f"under {a}<->{b}")
                            return
    for m in models:
        v0 = evaluate(m, e.sympy, targets)
        tot = np.zeros_like(v0)
        for w, Rb, prod in recon:
            if prod is None:
                tot = (tot + evaluate(m, Rb, targets)) % P
            else:
                terms = [t * prod for t in Add.make_args(S(Rb).expand())]
                tot = (tot + w * evaluate(m, Add(*terms), targets)) % P
        if not (tot == v0).all():
            r.fail("remove/recontraction",
                   f"{e} minus {name}: blocks "
                   f"{ {k: str(v) for k, v in res.items()} } do not restore "
                   f"the value (targets {targets})")
            return


def check_derivative(r, case, e, name, kind, targets, models):
    ok, res = lib_call(r, "derivative", derivative, e.copy(), name,
                       refusals=(NotImplementedError,))
    if not ok:
        return
    bk = CAT_BY_NAME[name][3]
    nu, nl = None, None
    recon = []
    for (space, spn), D_b in res.items():
        key = space if all(c == "n" for c in spn) else f"{space}_{spn}"
        cls_list = block_info(key)
        rank = len(cls_list)
        for t in case["terms"]:
            for o in t["objs"]:
                if o["name"] == name and len(o["u"]) + len(o.get("l", [])) == rank:
                    nu, nl = len(o["u"]), len(o.get("l", []))
        T, idx = make_block_tensor(kind, "dT", bk, nu, nl, cls_list, targets)
        if T == 0:
            raise BadCase("block tensor vanishes")
        recon.append((D_b.sympy, T, set(idx)))
        try:
            free = free_indices(D_b, targets, False)
        except _Inconsistent as exc:
            r.fail("derivative/inconsistent_free_indices", str(exc))
            return
        if free - set(targets) != set(idx) and D_b.sympy != 0:
            r.fail("derivative/tensor_index_names",
                   f"block {key}: free {sorted(map(str, free))} vs minimal "
                   f"names {sorted(map(str, idx))}: {D_b}")
            return
    deg = max(sum(o.exponent for o in t.objects if o.name == name)
              for t in e.terms)
    for m in models:
        # variation with the tensor's symmetry: tensor named dT of same kind
        keyN = None
        base_arrs = {}
        for t in S(e.sympy).atoms(SymbolicTensor):
            if t.name == name:
                m.tensor_factor(t)   # make sure arrays exist
        keys = [k for k in m.tensors if k[0] == name]
        for k in keys:
            kk = ("dT",) + k[1:]
            kind_m, bk_m = m.meta[k]
            if k[1] == "n":
                m.full_tensor("dT", 0, k[2], "nonsym", 0)
            else:
                m.full_tensor("dT", k[1], k[2], kind_m, bk_m)
            base_arrs[k] = (m.tensors[k].copy(), m.tensors[kk])
        vals = []
        for s_ in range(deg + 1):
            for k, (a0, da) in base_arrs.items():
                m.tensors[k] = (a0 + s_ * da) % P
            vals.append(evaluate(m, e.sympy, targets))
        for k, (a0, da) in base_arrs.items():
            m.tensors[k] = a0
        lin = linear_coefficient(vals)
        tot = np.zeros_like(vals[0])
        for Db, T, _ in recon:
            terms = [t * T for t in Add.make_args(S(Db).expand())]
            tot = (tot + evaluate(m, Add(*terms), targets)) % P
        if not (tot == lin).all():
            r.fail("derivative/first_order_change",
                   f"d({e})/d{name}: blocks "
                   f"{ {str(k): str(v) for k, v in res.items()} } contracted "
                   "with a variation do not give the first-order change")
            return


def linear_coefficient(vals):
    """coefficient of s^1 of the polynomial with values vals[s], s=0..deg"""
    n = len(vals)
    if n == 1:
        return np.zeros_like(vals[0])
    # solve Vandermonde system mod P
    V = [[pow(s_, k, P) for k in range(n)] for s_ in range(n)]
    # invert V (small) by Gauss-Jordan
    A = [row[:] + [1 if i == j else 0 for j in range(n)]
         for i, row in enumerate(V)]
    for c in range(n):
        piv = next(r_ for r_ in range(c, n) if A[r_][c] % P)
        A[c], A[piv] = A[piv], A[c]
        iv = inv(A[c][c])
        A[c] = [x * iv % P for x in A[c]]
        for r_ in range(n):
            if r_ != c and A[r_][c]:
                f = A[r_][c]
                A[r_] = [(x - f * y) % P for x, y in zip(A[r_], A[c])]
    Vinv = [row[n:] for row in A]
    out = np.zeros_like(vals[0])
    for s_ in range(n):
        out = (out + Vinv[1][s_] * vals[s_]) % P
    return out


def run_shard(col, shard, nshards, seed, tier):
    drive(strategy(tier), run_case, N_EXAMPLES[tier], seed * 1000 + shard,
          col)


def self_test():
    common.self_test_model()
    # interpolation: p(s) = 3 + 5 s + 7 s^2
    vals = [np.array([(3 + 5 * s_ + 7 * s_ * s_) % P]) for s_ in range(3)]
    assert int(linear_coefficient(vals)[0]) == 5
