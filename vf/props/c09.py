"""C09 - Kronecker-delta evaluation preserves the value and keeps index
information."""
from hypothesis import strategies as st
from sympy import S, Add, Mul, Pow
from sympy.physics.secondquant import F, Fd

from adcgen import evaluate_deltas
from adcgen.indices import Index
from adcgen.sympy_objects import NonSymmetricTensor, KroneckerDelta

from ..gen import (Cfg, st_expr_case, build_term, syms, label_class,
                   term_label_count, BadCase)
from ..model import Model, evaluate, idx_key
from ..runner import R, drive, lib_call
from .. import common

ID = "C09"
RULE = ("Hypothesis: products (and short sums) of tensors / creation and "
        "annihilation operators with 1-4 Kronecker deltas forming chains "
        "over occ/virt/general and alpha/beta/no-spin indices (mixed inside "
        "one term), every summed index constructed to sit on >= 1 non-delta "
        "object, 1 in 12 deltas links indices of different spaces / opposite "
        "spins (the term is then identically zero); evaluate_deltas with "
        "Einstein targets and with the same targets given explicitly; oracle: value on a spin- and "
        "space-structured F_p model (general = occ U virt, no spin = alpha U "
        "beta) + every free index still present + no new index. "
        "Non-trivial: >= 2 deltas sharing an index, or a delta between "
        "indices of unequal information, or a free index on a delta.")
BUDGET = {"quick": 75, "thorough": 1200}
N_EXAMPLES = {"quick": 1000, "thorough": 20000}
ASSUMPTIONS = ["operators are evaluated as position-tagged one-index tensors "
               "(delta evaluation only renames their indices)"]

CFG = Cfg(max_obj=5, min_obj=2, max_terms=2, max_target=3, max_exp=2,
          allow_hyper=True, allow_ops=True, allow_symbols=False,
          spin_modes=[False, False, True, "mixed", "mixed"],
          names=["delta", "f", "V", "d", "x", "z", "y", "t2", "R", "A", "F",
                 "Fd", "Y"],
          weights={"delta": 14}, zero_deltas=12)


@st.composite
def st_case(draw):
    base = draw(st_expr_case(CFG))
    return {"terms": base["terms"], "targets": base["targets"],
            "poly": draw(st.integers(0, 5)) == 0,
            "explicit": base["explicit"], "spin": base["spin"],
            "mseed": draw(st.integers(0, 2**31))}


def strategy(tier):
    return st_case()


def deoperator(expr):
    """replace the k-th operator of every product by a tagged tensor"""
    out = S.Zero
    for t in Add.make_args(S(expr)):
        k = 0
        res = S.One
        for f in Mul.make_args(t):
            if isinstance(f, (F, Fd)):
                tag = "Fd" if isinstance(f, Fd) else "F"
                res *= NonSymmetricTensor(f"op{k}{tag}", (f.args[0],))
                k += 1
            elif isinstance(f, Pow) and isinstance(f.args[0], (F, Fd)):
                raise BadCase("power of an operator")
            else:
                res *= f
        out += res
    return out


def run_case(case):
    r = R()
    targets = tuple(sorted(syms(case["targets"]), key=idx_key))
    terms = [build_term(t) for t in case["terms"]]
    terms = [t for t in terms if t != 0]
    if not terms:
        raise BadCase("zero")
    explicit = case["explicit"]
    if case.get("poly"):
        # a delta inside an *unexpanded* sum: T = R * D * Y  ->
        # R * (D * Y + q_{labels of D and Y}); the delta restricts one
        # summand only
        t0 = case["terms"][0]
        dl = [o for o in t0["objs"] if o["k"] == "K" and o.get("exp", 1) == 1]
        nd = [o for o in t0["objs"] if o["k"] in ("A", "S", "T", "N")
              and o.get("exp", 1) == 1]
        if dl and nd and terms and build_term(t0) != 0:
            from ..gen import build_obj
            D, Y = build_obj(dl[0]), build_obj(nd[0])
            lbls = []
            for l in dl[0]["u"] + nd[0].get("u", []) + nd[0].get("l", []):
                if l not in lbls:
                    lbls.append(l)
            q = NonSymmetricTensor("q", syms(lbls))
            rest = build_term({**t0, "objs": [o for o in t0["objs"]
                                              if o is not dl[0]
                                              and o is not nd[0]]})
            if D != 0 and D != 1:
                terms[0] = rest * Add(D * Y, q)
                explicit = True
                if not isinstance(terms[0], Add):
                    r.cls("delta_inside_polynomial")
    expr = Add(*terms)
    has_delta = bool(S(expr).atoms(KroneckerDelta))
    # precondition of the statement: every summed index sits on a non-delta
    for t in case["terms"]:
        cnt = term_label_count(t)
        nd = set()
        for o in t["objs"]:
            if o["k"] != "K":
                nd.update(o.get("u", []) + o.get("l", []))
        for lbl, n in cnt.items():
            if lbl not in case["targets"] and lbl not in nd:
                raise BadCase("summed index on deltas only")
    r.sample = f"evaluate_deltas({expr}) targets={targets} explicit={case['explicit']}"
    outs = []
    if not explicit:
        ok, o1 = lib_call(r, "einstein", evaluate_deltas, expr)
        if ok:
            outs.append(("einstein", o1))
    ok, o2 = lib_call(r, "explicit", evaluate_deltas, expr,
                      target_idx=list(targets))
    if ok:
        outs.append(("explicit", o2))
    spin = any(i.spin for i in S(expr).atoms(Index)) or \
        any(i.spin for i in targets)
    idx_in = set(S(expr).atoms(Index))
    for tag, out in outs:
        out = S(out)
        idx_out = set(out.atoms(Index))
        if not idx_out <= idx_in:
            r.fail(f"new_index/{tag}", f"{expr} -> {out}")
        for to in Add.make_args(out):
            if to == 0:
                continue
            missing = [t for t in targets if t not in to.atoms(Index)]
            if missing:
                r.fail(f"target_lost/{tag}", f"{expr} -> {out}: free index "
                       f"{missing} vanished (targets {targets})")
                break
        sizes = [(1, 1), (2, 1)] if spin else [(2, 2), (1, 3)]
        e0, e1 = deoperator(expr), deoperator(out)
        for k, (no, nv) in enumerate(sizes):
            m = Model(case["mseed"] + k, no, nv, spin=bool(spin))
            v0 = evaluate(m, e0, targets)
            v1 = evaluate(m, e1, targets)
            if not (v0 == v1).all():
                r.fail(f"value/{tag}", f"{expr} -> {out} targets {targets}")
                break
    # classes / non-triviality
    nontriv = False
    for t in case["terms"]:
        deltas = [o for o in t["objs"] if o["k"] == "K"]
        lbls = [l for o in deltas for l in o["u"]]
        if len(lbls) != len(set(lbls)):
            nontriv = True
            r.cls("delta_chain")
        for o in deltas:
            if label_class(o["u"][0]) != label_class(o["u"][1]):
                nontriv = True
                r.cls("unequal_information")
            if any(l in case["targets"] for l in o["u"]):
                nontriv = True
                r.cls("target_on_delta")
        r.cls(f"ndelta={min(len(deltas), 4)}")
    if any(o["k"] in ("F", "Fd") for t in case["terms"] for o in t["objs"]):
        r.cls("operators")
    r.nontrivial = nontriv and has_delta
    return r


def run_shard(col, shard, nshards, seed, tier):
    drive(strategy(tier), run_case, N_EXAMPLES[tier], seed * 1000 + shard,
          col)


def self_test():
    common.self_test_model()
