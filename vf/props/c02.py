"""C02 - ground-state perturbation theory agrees with explicit
determinant-space RSPT."""
import numpy as np
from hypothesis import strategies as st
from sympy import S

from adcgen import Expr, Operators, GroundState
from adcgen.indices import get_symbols

from ..gen import BadCase, ALPHABET
from ..model import Model, evaluate, idx_key, P, ModelResample
from ..rspt import Hamiltonian, RSPT, operator_apply
from ..runner import R, drive, lib_call
from .. import common, fock

ID = "C02"
RULE = ("Hypothesis draws (partitioning mp/re, first_order_singles, request "
        "kind = energy(n) | amplitude(n, space, generated index names) | "
        "expectation_value(n, n_particles), model size (2,2)/(3,2)/(2,3)/"
        "(3,3), canonical or non-canonical Fock matrix, Hamiltonian seed). "
        "Oracle: RSPT by explicit linear algebra in the determinant space of "
        "the random Hamiltonian (intermediate normalisation, linear solves in "
        "F_p): energies E^(n), amplitude arrays for every index assignment "
        "(closed-form MP amplitudes), RE residuals == 0 with the RE "
        "wavefunction coefficients as amplitudes, expectation values == "
        "[lambda^n] <Psi|D|Psi>/<Psi|Psi> for a random operator matrix. "
        "Non-trivial: order >= 2, or class >= triples, or a two-particle "
        "operator, or RE, and a non-zero reference.")
BUDGET = {"quick": 110, "thorough": 1800}
N_EXAMPLES = {"quick": 16, "thorough": 300}
ASSUMPTIONS = ["MP models have f_ov = 0 (the derivation documents a block "
               "diagonal H0); closed-form MP amplitudes need a canonical "
               "(diagonal) Fock matrix"]

_GS = {}


def gs_obj(variant, singles):
    key = (variant, singles)
    if key not in _GS:
        _GS[key] = GroundState(Operators(variant), first_order_singles=singles)
    return _GS[key]


SPACES = {1: "ph", 2: "pphh", 3: "ppphhh", 4: "pppphhhh"}


@st.composite
def st_names(draw, rank):
    occ = list(draw(st.permutations(list(ALPHABET["occ"]))))[:rank]
    virt = list(draw(st.permutations(list(ALPHABET["virt"]))))[:rank]
    if draw(st.integers(0, 3)) == 0:
        occ = [n + str(draw(st.sampled_from([1, 2]))) for n in occ]
    if draw(st.integers(0, 3)) == 0:
        virt = [n + str(draw(st.sampled_from([1, 2]))) for n in virt]
    names = occ + virt
    if draw(st.booleans()):
        names = list(draw(st.permutations(names)))
    return names


@st.composite
def st_case(draw, tier):
    variant = draw(st.sampled_from(["mp", "mp", "re"]))
    singles = draw(st.booleans())
    kind = draw(st.sampled_from(["energy", "amplitude", "amplitude",
                                 "expectation", "norm_recipe"]))
    if kind == "norm_recipe":
        # the Taylor recipe of the norm factor (1 + sum_n S^(n))^-1 is cheap
        # at any order: checked far beyond the derivable orders
        mo = draw(st.sampled_from([1, 2, 2, 2, 3]))
        return {"variant": variant, "singles": singles, "kind": kind,
                "order": draw(st.integers(0, 7 if mo == 1 else 10)),
                "min_order": mo,
                "size": [2, 2], "canonical": True,
                "mseed": draw(st.integers(0, 2**31))}
    max_o = 3 if tier == "quick" else 4
    case = {"variant": variant, "singles": singles, "kind": kind,
            "size": draw(st.sampled_from([[2, 2], [3, 2], [2, 3], [3, 3]])),
            "canonical": draw(st.booleans()),
            "mseed": draw(st.integers(0, 2**31))}
    if kind == "energy":
        case["order"] = draw(st.integers(0, max_o))
    elif kind == "amplitude":
        order = draw(st.integers(1, 3 if tier == "thorough" else 2))
        rank = draw(st.integers(1, min(2 * order, 3 if order > 1 else 2)))
        if tier == "quick" and order == 2 and rank == 3 and \
                draw(st.booleans()):
            rank = 2
        case.update(order=order, rank=rank, names=draw(st_names(rank)))
    else:
        case["order"] = draw(st.integers(0, 2 if tier == "quick" else 3))
        case["n_particles"] = draw(st.sampled_from([1, 1, 2]))
        if case["n_particles"] == 2 and case["order"] > 2:
            case["order"] = 2
    return case


def strategy(tier):
    return st_case(tier)


def build_oracle(case, order, attempt):
    no, nv = case["size"]
    variant = case["variant"]
    m = Model(case["mseed"] + 1000 * attempt, no, nv)
    f_ov = variant == "re" and case["singles"]
    canonical = case["canonical"] or \
        (variant == "mp" and case["kind"] == "amplitude")
    ham = Hamiltonian(m, variant=variant, canonical=canonical, f_ov=f_ov)
    pt = RSPT(ham, order)
    pt.install_amplitudes()
    return m, ham, pt


def run_case(case):
    r = R()
    variant, singles, kind = case["variant"], case["singles"], case["kind"]
    gs = gs_obj(variant, singles)
    if kind == "norm_recipe":
        n, mo = case["order"], case["min_order"]
        # the library enumerates product(range(mo, n + 1), repeat=k) for
        # every k <= n // mo: keep that enumeration small
        if mo < 1 or (n - mo + 1) ** (n // mo) > 10**6:
            raise BadCase("recipe enumeration too large")
        r.sample = f"GroundState({variant}).expand_norm_factor({n}, {mo})"
        ok, rec = lib_call(r, "expand_norm_factor", gs.expand_norm_factor, n,
                           mo)
        if ok:
            msg = common.check_taylor_recipe(rec, n, mo, -2, case["mseed"])
            if msg:
                r.fail("norm_factor_recipe", f"{r.sample}: {msg}")
        r.nontrivial = n >= 2 * mo
        r.cls("norm_recipe", f"order={n}")
        return r
    order = case["order"]
    for attempt in range(4):
        try:
            m, ham, pt = build_oracle(case, max(order, 1), attempt)
            break
        except ModelResample:
            r.resampled += 1
    else:
        raise ModelResample("no regular model")
    nz = False
    if kind == "energy":
        r.sample = f"GroundState({variant}, singles={singles}).energy({order})"
        ok, ex = lib_call(r, "energy", gs.energy, order)
        if not ok:
            return r
        val = int(evaluate(m, Expr(ex).expand().sympy, ()))
        ref = pt.E[order]
        nz = ref != 0
        if val != ref:
            r.fail("energy", f"{variant} singles={singles} E^({order}) on "
                   f"model {case['size']} canonical={ham.canonical}: derived "
                   f"expression gives {val}, RSPT gives {ref}")
    elif kind == "amplitude":
        rank, names = case["rank"], case["names"]
        space = SPACES[rank]
        idx_str = "".join(names)
        syms_ = get_symbols(names)
        virt = [s for s in syms_ if s.space == "virt"]
        occ = [s for s in syms_ if s.space == "occ"]
        tgt = tuple(virt + occ)
        if rank > min(m.no, m.nv):
            raise BadCase("model too small for this class")
        ref_full = pt.amplitude_array(order, rank)
        sel = np.ix_(*[m.positions(s) for s in tgt])
        ref = ref_full[sel]
        nz = bool((ref != 0).any())
        if variant == "mp":
            r.sample = (f"GroundState(mp, singles={singles}).mp_amplitude("
                        f"{order}, '{space}', '{idx_str}')")
            ok, ex = lib_call(r, "mp_amplitude", gs.mp_amplitude, order,
                              space, idx_str)
            if not ok:
                return r
            try:
                val = evaluate(m, Expr(ex).expand().sympy, tgt)
            except ModelResample:
                r.resampled += 1
                return r
            if not (val == ref).all():
                r.fail("mp_amplitude", f"t^({order}) {space} '{idx_str}' on "
                       f"model {case['size']}: {int((val != ref).sum())} of "
                       f"{ref.size} elements differ from the RSPT "
                       "wavefunction coefficients")
        else:
            r.sample = (f"GroundState(re, singles={singles})."
                        f"amplitude_residual({order}, '{space}', '{idx_str}')")
            ok, ex = lib_call(r, "amplitude_residual", gs.amplitude_residual,
                              order, space, idx_str)
            if not ok:
                return r
            val = evaluate(m, Expr(ex).expand().sympy, tgt)
            if (val != 0).any():
                r.fail("re_residual", f"RE residual ({order}, {space}, "
                       f"'{idx_str}') does not vanish for the RE "
                       f"wavefunction coefficients on model {case['size']} "
                       f"({int((val != 0).sum())} of {val.size} elements)")
    else:
        npart = case["n_particles"]
        r.sample = (f"GroundState({variant}, singles={singles})."
                    f"expectation_value({order}, {npart})")
        ok, ex = lib_call(r, "expectation_value", gs.expectation_value, order,
                          npart)
        if not ok:
            return r
        d = m.full_tensor("d", npart, npart, "anti", 0)
        ser = pt.expectation_series(
            lambda v: operator_apply(pt.fk, m.N, d, npart, npart, v))
        ref = ser[order]
        nz = ref != 0
        val = int(evaluate(m, Expr(ex).expand().sympy, ()))
        if val != ref:
            r.fail("expectation_value", f"{variant} singles={singles} order "
                   f"{order} {npart}-particle operator on model "
                   f"{case['size']}: derived {val}, explicit {ref}")
    r.nontrivial = bool(nz and (order >= 2 or variant == "re" or
                                case.get("rank", 0) >= 3 or
                                case.get("n_particles", 0) == 2))
    r.cls(kind, variant, f"order={order}", f"singles={singles}")
    return r


# fixed deep cases (one per shard): third-order amplitudes of every class,
# fourth-order expectation value / energy (first orders at which the
# E^(m) t^(n-m) bookkeeping and the S(2) S(2) norm term matter)
DEEP = [
    {"variant": "mp", "singles": False, "kind": "amplitude", "size": [3, 3],
     "canonical": True, "mseed": 3, "order": 3, "rank": 3,
     "names": ["i", "j", "k", "a", "b", "c"]},
    {"variant": "mp", "singles": False, "kind": "expectation",
     "size": [2, 2], "canonical": True, "mseed": 4, "order": 4,
     "n_particles": 1},
    {"variant": "mp", "singles": False, "kind": "amplitude", "size": [3, 2],
     "canonical": True, "mseed": 5, "order": 3, "rank": 2,
     "names": ["j", "i", "b", "a"]},
    {"variant": "mp", "singles": False, "kind": "amplitude", "size": [3, 2],
     "canonical": True, "mseed": 6, "order": 3, "rank": 1,
     "names": ["k", "c"]},
    {"variant": "mp", "singles": True, "kind": "amplitude", "size": [2, 3],
     "canonical": True, "mseed": 7, "order": 3, "rank": 1,
     "names": ["i", "a"]},
    {"variant": "mp", "singles": False, "kind": "energy", "size": [3, 2],
     "canonical": False, "mseed": 8, "order": 4},
    {"variant": "re", "singles": True, "kind": "energy", "size": [2, 2],
     "canonical": False, "mseed": 9, "order": 3},
    {"variant": "re", "singles": True, "kind": "amplitude", "size": [3, 3],
     "canonical": False, "mseed": 10, "order": 2, "rank": 3,
     "names": ["i", "j", "k", "a", "b", "c"]},
    # third-order RE residuals (<Phi_k|H1|psi(2)> with the (k+2)-fold
    # excited part of psi(2)), third-order two-particle expectation value
    # (first order with a norm-factor x d^(1) product)
    {"variant": "re", "singles": True, "kind": "amplitude", "size": [3, 3],
     "canonical": False, "mseed": 21, "order": 3, "rank": 1,
     "names": ["i", "a"]},
    {"variant": "mp", "singles": False, "kind": "expectation",
     "size": [2, 2], "canonical": True, "mseed": 22, "order": 3,
     "n_particles": 2},
    {"variant": "re", "singles": False, "kind": "amplitude", "size": [3, 3],
     "canonical": False, "mseed": 23, "order": 3, "rank": 1,
     "names": ["j", "b"]},
    {"variant": "re", "singles": False, "kind": "expectation",
     "size": [2, 2], "canonical": False, "mseed": 24, "order": 3,
     "n_particles": 2},
]


def run_shard(col, shard, nshards, seed, tier):
    if shard < len(DEEP):
        col.run(DEEP[shard], run_case)
    drive(strategy(tier), run_case, N_EXAMPLES[tier], seed * 1000 + shard,
          col)


SHRINK = False


def self_test():
    common.self_test_model()
    fock.self_test()
    m = Model(7, 2, 2)
    for variant, f_ov in (("mp", False), ("re", True)):
        ham = Hamiltonian(Model(7, 2, 2), variant=variant, canonical=False,
                          f_ov=f_ov)
        RSPT(ham, 3).self_test()
    # two-body operator via antisymmetry == full sum
    ham = Hamiltonian(m, "mp")
    vec = {ham.fk.ref: 1, 0b0110: 5}
    a = ham.fk.two_body(ham.V, vec)
    b = ham.fk.two_body_full(ham.V, vec)
    assert a == b
