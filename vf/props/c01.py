"""C01 - Wick evaluation equals the Fermi-vacuum expectation value."""
import itertools
from collections import Counter

import numpy as np
from hypothesis import strategies as st
from sympy import S, Add, Mul, Pow
from sympy.physics.secondquant import F, Fd, NO, FermionicOperator

from adcgen import wicks, Expr
from adcgen.rules import Rules
from adcgen.indices import Index
from adcgen.sympy_objects import (AntiSymmetricTensor, NonSymmetricTensor,
                                  Amplitude, SymbolicTensor, KroneckerDelta)

from ..gen import (sym, syms, label_class, parse_label, BadCase, ALPHABET,
                   build_obj)
from ..model import Model, evaluate, contract, idx_key, P
from ..fock import vev
from ..runner import R, drive, lib_call
from .. import common, fock

ID = "C01"
RULE = ("Hypothesis: products of 2-8 creation/annihilation operators on "
        "occ/virt/general indices (distinct or repeated), random grouping of "
        "consecutive operators into NO(...) groups, 0-3 coefficient tensors "
        "(incl. Kronecker deltas) wired to operator indices (Einstein "
        "convention over the input term, every summed index on >= 1 "
        "non-delta tensor), optional rule sets (RE "
        "rule sets and generated ones). Oracle: for every assignment of spin "
        "orbitals to the operator indices the Fermi-vacuum expectation value "
        "by bit-string algebra (literal normal ordering, no contractions), "
        "contracted with the tensor values in F_p, on models (1,1) .. (3,2); "
        "compared with wicks() without and with delta evaluation; result "
        "must be operator free; rules: output == unruled output minus "
        "exactly the terms holding a forbidden block (independent block "
        "computation). Non-trivial: >= 2 non-vanishing full contractions, or "
        "a general index on an operator, or a NO group next to a bare "
        "operator, or a rule hit.")
BUDGET = {"quick": 100, "thorough": 1500}
N_EXAMPLES = {"quick": 900, "thorough": 30000}
ASSUMPTIONS = ["indices without spin (contractions are documented as not "
               "implemented for spin)"]

TENSORS = [("A", "f", 1, 1), ("A", "V", 2, 2), ("A", "d", 1, 1),
           ("A", "d", 2, 2), ("T", "t1", 2, 2), ("T", "t2", 1, 1),
           ("N", "x", 2, 0), ("N", "z", 1, 0), ("T", "X", 1, 1),
           ("K", "delta", 2, 0)]
RULESETS = [None, None, None,
            {"f": ["ov", "vo"],
             "V": ["ooov", "oovv", "ovvv", "ovoo", "vvoo", "vvov"]},
            {"f": ["oo", "vv"], "V": ["oooo", "ovov", "vvvv"]},
            # rule sets with an empty block list next to a non-empty one
            {"f": ["ov", "vo"], "V": []},
            {"V": ["oovv", "vvoo", "ovov"], "f": [], "d": ["oo"]}]


@st.composite
def st_case(draw):
    general = draw(st.integers(0, 2)) != 0
    spaces = ["occ", "virt"] + (["general"] * 2 if general else [])
    nops = draw(st.sampled_from([2, 2, 3, 4, 4, 4, 5, 6, 6, 8]))
    ops = []
    used = {s: 0 for s in ALPHABET}

    def fresh(space):
        nm = ALPHABET[space][used[space] % len(ALPHABET[space])]
        k = used[space] // len(ALPHABET[space])
        used[space] += 1
        return nm + (str(k) if k else "")
    # contraction pairs in an order that does not vanish (a_virt a+_virt,
    # a+_occ a_occ), merged at random keeping the order inside each pair
    pairs = []
    for _ in range(nops // 2):
        sp1 = draw(st.sampled_from(spaces))
        sp2 = sp1 if draw(st.integers(0, 3)) != 0 else \
            draw(st.sampled_from(spaces))
        first_create = {"occ": True, "virt": False,
                        "general": draw(st.booleans())}[
                            sp1 if sp1 != "general" else sp2]
        pair = [["Fd", fresh(sp1)], ["F", fresh(sp2)]]
        if not first_create:
            pair.reverse()
        if draw(st.integers(0, 7)) == 0:   # a vanishing order
            pair.reverse()
        pairs.append(pair)
    order = []
    for pi in range(len(pairs)):
        order += [pi, pi]
    order = list(draw(st.permutations(order)))
    seen_p = Counter()
    for pi in order:
        ops.append(pairs[pi][seen_p[pi]])
        seen_p[pi] += 1
    while len(ops) < nops:
        ops.append([draw(st.sampled_from(["F", "Fd"])),
                    fresh(draw(st.sampled_from(spaces)))])
    # repeated label on two operators (then it has to sit on a tensor too)
    forced = []
    if len(ops) >= 3 and draw(st.integers(0, 5)) == 0:
        a, b = draw(st.sampled_from(list(itertools.combinations(
            range(len(ops)), 2))))
        if label_class(ops[a][1]) == label_class(ops[b][1]):
            ops[b][1] = ops[a][1]
            forced.append(ops[a][1])
    # NO groups: consecutive runs
    groups = []
    k = 0
    while k < len(ops):
        if len(ops) - k >= 2 and draw(st.integers(0, 3)) == 0:
            ln = draw(st.integers(2, min(4, len(ops) - k)))
            has_gen = any(label_class(o[1])[0] == "general"
                          for o in ops[k:k + ln])
            if not has_gen or draw(st.integers(0, 11)) == 0:
                groups.append([k, ln])
            k += ln
        else:
            k += 1
    # tensors wired to operator labels
    op_labels = list(dict.fromkeys(o[1] for o in ops))
    tensors = []
    pool = list(op_labels)
    for _ in range(draw(st.integers(0, 3))):
        kind, name, nu, nl = draw(st.sampled_from(TENSORS))
        slots = []
        for _s in range(nu + nl):
            choice = draw(st.integers(0, 5))
            if choice <= 3 and pool:
                lbl = draw(st.sampled_from(pool))
                if name in ("X", "t1", "t2") and \
                        label_class(lbl)[0] == "general":
                    lbl = fresh(draw(st.sampled_from(["occ", "virt"])))
            else:
                lbl = fresh(draw(st.sampled_from(spaces if name not in
                                                 ("X",) else ["occ", "virt"])))
            slots.append(lbl)
        if kind == "K":
            # a delta of the commuting part: indices of one space (or a
            # general one), not twice the same index
            (s0, _), (s1, _) = label_class(slots[0]), label_class(slots[1])
            if slots[0] == slots[1] or \
                    (s0 != s1 and "general" not in (s0, s1)):
                slots[1] = fresh(s0)
        tensors.append({"k": kind, "name": name, "u": slots[:nu],
                        "l": slots[nu:], "bk": 0, "exp": 1})
    for lbl in forced:   # make sure a repeated operator label is on a tensor
        if not any(lbl in t["u"] + t["l"] for t in tensors):
            tensors.append({"k": "N", "name": "z", "u": [lbl], "l": [],
                            "bk": 0, "exp": 1})
    return {"ops": ops, "groups": groups, "tensors": tensors,
            "rules": draw(st.sampled_from(RULESETS)),
            "mseed": draw(st.integers(0, 2**31))}


def strategy(tier):
    return st_case()


def build(case):
    opobjs = [(Fd if k == "Fd" else F)(sym(lbl)) for k, lbl in case["ops"]]
    expr = S.One
    for t in case["tensors"]:
        expr = expr * build_obj(t)
    k = 0
    gstart = {g[0]: g[1] for g in case["groups"]}
    if any(ln < 2 or st_ < 0 or st_ + ln > len(opobjs)
           for st_, ln in gstart.items()):
        raise BadCase("bad NO group")
    structure = []   # [('op', i) | ('no', [i...])]
    while k < len(opobjs):
        if k in gstart:
            ln = gstart[k]
            inner = Mul(*opobjs[k:k + ln])
            if any(isinstance(f, Pow) for f in Mul.make_args(inner)):
                raise BadCase("power of an operator inside NO")
            expr = expr * NO(inner)
            structure.append(("no", list(range(k, k + ln))))
            k += ln
        else:
            expr = expr * opobjs[k]
            structure.append(("op", k))
            k += 1
    return expr, structure


def reference(case, model, structure, free, tens_sympy):
    """value over `free` of sum_{summed} prod tensors * <Phi|ops|Phi>"""
    ops = case["ops"]
    labels = list(dict.fromkeys(o[1] for o in ops))
    idx = [sym(l) for l in labels]
    ranges = [model.positions(i) for i in idx]
    W = np.zeros(tuple(len(r_) for r_ in ranges), dtype=np.int64)
    for pos in itertools.product(*[range(len(r_)) for r_ in ranges]):
        amap = {l: ranges[k][p_] for k, (l, p_) in enumerate(zip(labels, pos))}
        groups = []
        for g in structure:
            if g[0] == "op":
                k_, lbl = ops[g[1]]
                groups.append(("op", ("c" if k_ == "Fd" else "a", amap[lbl])))
            else:
                groups.append(("no", [("c" if ops[i][0] == "Fd" else "a",
                                       amap[ops[i][1]]) for i in g[1]]))
        W[pos] = vev(groups, model.no) % P
    facs = [(W, tuple(idx))]
    sc = 1
    from ..model import _atom_factor
    for t in Mul.make_args(Mul(*tens_sympy)):
        s_, fa = _atom_factor(model, t)
        sc = sc * s_ % P
        facs += fa
    return sc * contract(model, facs, free) % P, int((W != 0).sum())


def my_block(base):
    return "".join(i.space[0] for i in base.idx)


def ruled_terms(expr, rules):
    """independent application of block rules to an expanded sum"""
    keep = []
    hit = 0
    for t in Add.make_args(S(expr)):
        bad = False
        for f in Mul.make_args(t):
            b = f.args[0] if isinstance(f, Pow) else f
            if isinstance(b, SymbolicTensor) and b.name in rules and \
                    my_block(b) in rules[b.name]:
                bad = True
        if bad:
            hit += 1
        else:
            keep.append(t)
    return Add(*keep), hit


def run_case(case):
    r = R()
    expr, structure = build(case)
    if expr == 0:
        raise BadCase("zero")
    ops = case["ops"]
    cnt = Counter(o[1] for o in ops)
    for t in case["tensors"]:
        for l in t["u"] + t["l"]:
            cnt[l] += 1
    on_tensor = {l for t in case["tensors"] if t["k"] != "K"
                 for l in t["u"] + t["l"]}
    for l, n in cnt.items():
        if n >= 2 and l not in on_tensor:
            raise BadCase("summed index on operators only")
    free_l = sorted(l for l, n in cnt.items() if n == 1)
    free = tuple(sorted(syms(free_l), key=idx_key))
    dims = {"occ": 3, "virt": 2, "general": 5}
    vol = 1
    for l in set(free_l) | set(cnt):
        vol *= dims[label_class(l)[0]]
    if vol > 3e6:
        raise BadCase("too many indices for the reference evaluation")
    gen_on_op = any(label_class(o[1])[0] == "general" for o in ops)
    gen_in_no = any(label_class(ops[i][1])[0] == "general"
                    for g in structure if g[0] == "no" for i in g[1])
    free_gen_on_op = any(label_class(o[1])[0] == "general" and cnt[o[1]] == 1
                         for o in ops)
    r.sample = f"wicks({expr}) rules={case['rules']} free={free}"
    if gen_in_no and not case.get("include_known"):
        r.excluded.append("F4_general_index_inside_NO")
        return r
    if any(isinstance(f, Pow) for f in Mul.make_args(expr)
           if not f.is_commutative) or any(
            isinstance(f, Pow) for g in S(expr).atoms(NO)
            for f in Mul.make_args(g.args[0])):
        # a_j a_j is stored as a power of an operator (it vanishes); the
        # library does not accept operator powers (observation, DESIGN.md)
        r.excluded.append("power_of_an_operator")
        return r
    if len(set(o[1] for o in ops)) > 6:
        raise BadCase("too many operator labels for the reference")
    rules = Rules(case["rules"]) if case["rules"] else None
    tens = [build_obj(t) for t in case["tensors"]]
    outs = {}
    for evd in (False, True):
        ok, res = lib_call(r, f"wicks/evd={evd}", wicks, expr,
                           simplify_kronecker_deltas=evd,
                           refusals=(NotImplementedError,))
        if ok:
            outs[evd] = res
    if not outs:
        return r
    for evd, res in outs.items():
        if S(res).atoms(FermionicOperator, NO):
            r.fail("not_operator_free", f"{expr} -> {res}")
            return r
    sizes = [(1, 1), (2, 1), (1, 2), (2, 2)]
    if len(set(o[1] for o in ops)) <= 4:
        sizes.append((3, 2))
    nz_max = 0
    for k, (no, nv) in enumerate(sizes):
        m = Model(case["mseed"] + k, no, nv)
        ref, nz = reference(case, m, structure, free, tens)
        nz_max = max(nz_max, nz)
        for evd, res in outs.items():
            val = evaluate(m, res, free)
            if not (val == ref).all():
                r.fail(f"value/evd={evd}",
                       f"{expr} (free {free}) -> {res}: differs from the "
                       f"Fermi-vacuum expectation value on model ({no},{nv})")
        if r.fails:
            break
    # rules
    rule_hit = 0
    if rules is not None and False in outs:
        for evd in outs:
            ok, ruled = lib_call(r, f"wicks_rules/evd={evd}", wicks, expr,
                                 rules=rules, simplify_kronecker_deltas=evd)
            if not ok:
                continue
            exp, hit = ruled_terms(S(outs[evd]).expand(), case["rules"])
            rule_hit = max(rule_hit, hit)
            # (every call creates its own anonymous occ/virt indices for
            #  general-general contractions: compare structure and value)
            _, left = ruled_terms(S(ruled).expand(), case["rules"])
            n_got = len(Add.make_args(S(ruled).expand())) if ruled != 0 else 0
            n_exp = len(Add.make_args(exp)) if exp != 0 else 0
            bad = left > 0 or n_got != n_exp
            for k2 in range(2):
                m2 = Model(case["mseed"] + 50 + k2, 2, 2)
                if not (evaluate(m2, ruled, free) ==
                        evaluate(m2, exp, free)).all():
                    bad = True
            if bad:
                r.fail(f"rules/evd={evd}",
                       f"{expr} with rules {case['rules']}: got {ruled}, "
                       f"unruled result minus forbidden terms is {exp}")
    # the operator-free product of the coefficient tensors alone (an empty
    # operator string): its value is the product itself, and the rules
    # remove it iff it holds an excluded block
    if rules is not None and tens and not r.fails:
        from ..model import einstein_target
        tp = Mul(*tens)
        if tp != 0:
            tfree = einstein_target(tp)
            exp_tp, hit_tp = ruled_terms(S(tp).expand(), case["rules"])
            ok, got_tp = lib_call(r, "wicks_rules/operator_free", wicks, tp,
                                  rules=rules)
            if ok:
                _, left = ruled_terms(S(got_tp).expand(), case["rules"])
                m2 = Model(case["mseed"] + 77, 2, 2)
                if left > 0 or not (evaluate(m2, got_tp, tfree) ==
                                    evaluate(m2, exp_tp, tfree)).all():
                    r.fail("rules/operator_free",
                           f"wicks({tp}, rules={case['rules']}) = {got_tp}, "
                           f"expected {exp_tp}")
                r.cls("operator_free_with_rules")
                if hit_tp:
                    r.cls("operator_free_rule_hit")
    n_terms = len(Add.make_args(S(outs.get(False, 0)))) if outs.get(False, 0) != 0 else 0
    no_next_to_bare = any(g[0] == "no" for g in structure) and \
        any(g[0] == "op" for g in structure)
    r.nontrivial = (n_terms >= 2 or gen_on_op or no_next_to_bare or
                    rule_hit > 0) and nz_max > 0
    r.cls(f"nops={len(ops)}", f"n_terms={min(n_terms, 6)}")
    for flag, nm in ((gen_on_op, "general_on_operator"),
                     (free_gen_on_op, "free_general_on_operator"),
                     (bool(case["groups"]), "NO_group"),
                     (rule_hit > 0, "rule_hit"), (nz_max == 0, "vev_zero"),
                     (bool(case["tensors"]), "with_tensors"),
                     (any(t["k"] == "K" for t in case["tensors"]),
                      "delta_in_commuting_part")):
        if flag:
            r.cls(nm)
    return r


def run_shard(col, shard, nshards, seed, tier):
    drive(strategy(tier), run_case, N_EXAMPLES[tier], seed * 1000 + shard,
          col)


def self_test():
    common.self_test_model()
    fock.self_test()
