"""C13 - orbital-energy fraction algebra and Fock diagonalisation preserve
the value."""
import itertools

import numpy as np
from hypothesis import strategies as st
from sympy import S, Add, Mul, Pow, Rational

from adcgen import Expr, EriOrbenergy
from adcgen.reduce_expr import factor_eri_parts, factor_denom
from adcgen.misc import Inputerror
from adcgen.indices import Index
from adcgen.sympy_objects import NonSymmetricTensor, SymmetricTensor

from ..gen import (Cfg, st_expr_case, build_term, syms, sym, label_class,
                   term_label_count, BadCase, rename_term, st_names,
                   parse_label)
from ..model import Model, evaluate, idx_key, P, ModelResample, inv
from ..runner import R, drive, lib_call
from .. import common

ID = "C13"
RULE = ("Hypothesis: terms pref * (sum of rational * e_x) / prod "
        "(bracket)^k * remainder, brackets = +-(sum e_occ - sum e_virt) over "
        "the remainder's indices (1-3 brackets, exponents 1-2), explicit "
        "target indices; sums of 2-4 such terms sharing an (alpha-renamed) "
        "remainder; D-tensor forms; Fock-containing terms. Oracle: value on "
        "F_p models with random orbital energies (D := reciprocal bracket, "
        "f := diag(e) resp. block diagonal) for EriOrbenergy(.).expr, "
        "canonicalize_sign, permute_num, cancel_orb_energy_frac, symbolic <-> "
        "explicit denominators in both directions, factor_eri_parts, "
        "factor_denom, diagonalize_fock (targets kept), "
        "block_diagonalize_fock. Non-trivial: >= 2 brackets, or a numerator "
        "with >= 2 energies, or >= 2 terms, or a Fock element with a "
        "contracted index.")
BUDGET = {"quick": 90, "thorough": 1500}
N_EXAMPLES = {"quick": 300, "thorough": 6000}
ASSUMPTIONS = ["a vanishing denominator in F_p redraws the model "
               "(counted as resampled)",
               "RuntimeError 'Ambiguous signs' / NotImplementedError / "
               "Inputerror raised by the library's own validation are "
               "refusals"]

CFG = Cfg(min_obj=1, max_obj=3, max_terms=1, max_target=3, max_exp=2,
          allow_general=False, allow_hyper=False, allow_explicit=False,
          allow_symbols=False, spin_modes=[False, False, False, True],
          max_slots=9,
          names=["V", "f", "d", "A", "t1", "t2", "X", "R", "x", "z", "y",
                 "delta"])
CFG_F = Cfg(min_obj=1, max_obj=4, max_terms=2, max_target=3, max_exp=2,
            allow_general=True, allow_hyper=False, allow_explicit=False,
            allow_symbols=False, spin_modes=[False], max_slots=9,
            names=["V", "f", "d", "t2", "X", "x", "z"], weights={"f": 6})


def e_(lbl):
    return NonSymmetricTensor("e", (sym(lbl),))


@st.composite
def st_frac(draw, occ, virt):
    """brackets and numerator over the given occ / virt labels"""
    brackets = []
    for _ in range(draw(st.integers(1, 3))):
        no = draw(st.integers(0, min(2, len(occ))))
        nv = draw(st.integers(0 if no else 1, min(2, len(virt)))) if virt \
            else 0
        if no + nv == 0:
            continue
        if no + nv == 1 and draw(st.integers(0, 9)) != 0:
            continue   # a bare energy is no bracket (rejected by validation)
        if draw(st.integers(0, 2)) != 0 and occ and virt:
            # balanced bracket (symbolic denominators need n_occ == n_virt)
            n = draw(st.integers(1, min(2, len(occ), len(virt))))
            no = nv = n
        o_ = list(draw(st.permutations(occ)))[:no]
        v_ = list(draw(st.permutations(virt)))[:nv]
        brackets.append({"occ": o_, "virt": v_,
                         "sign": draw(st.sampled_from([1, 1, -1])),
                         "exp": draw(st.sampled_from([1, 1, 1, 2]))})
    num = []
    if draw(st.integers(0, 9)) < 6:
        sgn = draw(st.sampled_from([1, 1, -1]))
        no = draw(st.integers(0, min(3, len(occ))))
        nv = draw(st.integers(0 if no else 1, min(3, len(virt)))) if virt else 0
        for l in list(draw(st.permutations(occ)))[:no]:
            num.append([l, sgn * draw(st.sampled_from([1, 1, 1, 2, 3])),
                        draw(st.sampled_from([1, 1, 2]))])
        for l in list(draw(st.permutations(virt)))[:nv]:
            num.append([l, -sgn * draw(st.sampled_from([1, 1, 1, 2])),
                        draw(st.sampled_from([1, 1, 2]))])
        if num and draw(st.integers(0, 14)) == 0:   # ambiguous sign (refused)
            num[0][1] *= -1
    return {"brackets": brackets, "num": num}


@st.composite
def st_case(draw):
    kind = draw(st.sampled_from(["frac", "frac", "frac", "multi", "fock"]))
    if kind == "fock":
        base = draw(st_expr_case(CFG_F))
        return {"sub": "fock", "terms": base["terms"],
                "targets": base["targets"],
                "block": draw(st.booleans()),
                "real": draw(st.integers(0, 2)) != 0,
                "mseed": draw(st.integers(0, 2**31))}
    base = draw(st_expr_case(CFG))
    rem = base["terms"][0]
    labels = sorted(term_label_count(rem))
    occ = [l for l in labels if label_class(l)[0] == "occ"]
    virt = [l for l in labels if label_class(l)[0] == "virt"]
    fr = draw(st_frac(occ, virt))
    case = {"sub": "frac", "rem": rem, "targets": base["targets"],
            "spin": base["spin"], "fracs": [fr], "coefs": [[1, 1]],
            "mseed": draw(st.integers(0, 2**31))}
    if kind == "multi":
        for _ in range(draw(st.integers(1, 3))):
            case["fracs"].append(draw(st_frac(occ, virt)))
            case["coefs"].append([draw(st.sampled_from([1, -1, 2, 3])),
                                  draw(st.sampled_from([1, 2, 4]))])
        case["sub"] = "multi"
    return case


def strategy(tier):
    return st_case()


def build_frac(fr):
    num = S.One
    if fr["num"]:
        num = Add(*[Rational(p, q) * e_(l) for l, p, q in fr["num"]])
    den = S.One
    for b in fr["brackets"]:
        br = b["sign"] * (Add(*[e_(l) for l in b["occ"]])
                          - Add(*[e_(l) for l in b["virt"]]))
        if br == 0 or br.is_number:
            raise BadCase("empty bracket")
        den *= Pow(br, b["exp"])
    return num, den


def make_models(case, spin, n=2):
    sizes = [(1, 1), (2, 1)] if spin else [(2, 3), (3, 2)]
    out = []
    for k, (no, nv) in enumerate(sizes[:n]):
        m = Model(case["mseed"] + k, no, nv, spin=spin)
        e = m.full_tensor("e", 0, 1, "nonsym", 0)
        N = m.N
        ranks = set()
        for fr in case.get("fracs", []):
            for b in fr["brackets"]:
                if len(b["occ"]) == len(b["virt"]):
                    ranks.add(len(b["occ"]))
        for r_ in sorted(ranks):
            if N ** (2 * r_) > 70000:
                continue
            tot = np.zeros((N,) * (2 * r_), dtype=np.int64)
            for ax in range(2 * r_):
                shp = [1] * (2 * r_)
                shp[ax] = N
                tot = tot + (1 if ax < r_ else -1) * e.reshape(shp)
            tot %= P
            flat = tot.reshape(-1)
            D = np.array([pow(int(v), P - 2, P) if v else 0 for v in flat],
                         dtype=np.int64).reshape(tot.shape)
            m.set_tensor("D", r_, r_, D, kind="sym", bk=-1)
        out.append(m)
    return out


REFUSALS = (NotImplementedError, Inputerror, RuntimeError)


class _InvalidBracket(Exception):
    pass


def guarded(fn):
    """the library validates denominators with TypeError('Invalid bracket
    ...'): that deliberate rejection is a refusal, other TypeErrors are not"""
    def inner(*a, **k):
        try:
            return fn(*a, **k)
        except TypeError as exc:
            if str(exc).startswith("Invalid bracket"):
                raise NotImplementedError(str(exc)) from None
            raise
    return inner


def cmp_value(r, tag, models, expr0, out, targets):
    for m in models:
        try:
            v0 = evaluate(m, expr0, targets)
            v1 = evaluate(m, out, targets)
        except ModelResample:
            r.resampled += 1
            continue
        if not (v0 == v1).all():
            r.fail(f"{tag}/value", f"{expr0}  ->  {getattr(out, 'sympy', out)}"
                   f" (targets {targets})")
            return False
    return True


def run_frac(case, r):
    rem = build_term(case["rem"])
    if rem == 0:
        raise BadCase("zero")
    targets = tuple(sorted(syms(case["targets"]), key=idx_key))
    spin = case["spin"]
    models = make_models(case, spin)
    terms = []
    for fr, (p, q) in zip(case["fracs"], case["coefs"]):
        num, den = build_frac(fr)
        terms.append(Rational(p, q) * num * rem / den)
    kw = {"target_idx": list(targets), "real": True}
    if case["sub"] == "frac":
        t_sym = terms[0]
        e = Expr(t_sym, **kw)
        if len(e) != 1 or e.sympy == 0:
            raise BadCase("not a single term")
        term = e.terms[0]
        r.sample = f"EriOrbenergy({e}) targets={targets}"
        ok, eo = lib_call(r, "split", guarded(EriOrbenergy), term,
                          refusals=REFUSALS)
        if ok:
            cmp_value(r, "rebuild", models, e.sympy, eo.expr, targets)
            for tag, fn in (
                    ("canonicalize_sign",
                     lambda: EriOrbenergy(term).canonicalize_sign().expr),
                    ("canonicalize_sign_denom", lambda: EriOrbenergy(term)
                     .canonicalize_sign(only_denom=True).expr),
                    ("permute_num",
                     lambda: EriOrbenergy(term).permute_num().expr),
                    ("cancel_orb_energy_frac",
                     lambda: EriOrbenergy(term).cancel_orb_energy_frac())):
                ok2, out = lib_call(r, tag, guarded(fn), refusals=REFUSALS)
                if ok2:
                    cmp_value(r, tag, models, e.sympy, out, targets)
        # symbolic denominators, both directions
        ok, symb = lib_call(r, "use_symbolic_denominators",
                            guarded(lambda: e.copy().use_symbolic_denominators()),
                            refusals=REFUSALS)
        if ok:
            if cmp_value(r, "symbolic", models, e.sympy, symb, targets):
                ok3, back = lib_call(
                    r, "use_explicit_denominators",
                    lambda: symb.copy().use_explicit_denominators(),
                    refusals=REFUSALS)
                if ok3:
                    cmp_value(r, "explicit", models, e.sympy, back, targets)
                    if "D" in back.antisym_tensors:
                        r.fail("explicit/assumptions", "D still declared")
            if any(t.name == "D" for t in
                   S(symb.sympy).atoms(SymmetricTensor)) and \
                    "D" not in symb.antisym_tensors:
                r.fail("symbolic/assumptions", "D not declared antisym")
        fr = case["fracs"][0]
        r.nontrivial = len(fr["brackets"]) >= 2 or len(fr["num"]) >= 2
        r.cls("frac", f"brackets={len(fr['brackets'])}",
              f"num={min(len(fr['num']), 4)}")
    else:
        e = Expr(Add(*terms), **kw)
        if e.sympy == 0:
            raise BadCase("zero")
        r.sample = f"factor_eri_parts/factor_denom({e}) targets={targets}"
        for tag, fn in (("factor_eri_parts", factor_eri_parts),
                        ("factor_denom", factor_denom)):
            ok, parts = lib_call(r, tag, guarded(fn), e.copy().expand(),
                                 refusals=REFUSALS)
            if not ok:
                continue
            total = S.Zero
            for p_ in parts:
                total += p_.sympy
                if p_.provided_target_idx != e.provided_target_idx:
                    r.fail(f"{tag}/assumptions", "targets changed")
            cmp_value(r, tag, models, e.sympy, total, targets)
        r.nontrivial = len(e) >= 2
        r.cls("multi", f"terms={min(len(e), 5)}")
    if spin:
        r.cls("spin")


def run_fock(case, r):
    terms = [build_term(t) for t in case["terms"]]
    terms = [t for t in terms if t != 0]
    if not terms:
        raise BadCase("zero")
    targets = tuple(sorted(syms(case["targets"]), key=idx_key))
    # (complex orbitals: f^i_p and f^p_i stay distinct objects; the model's
    #  Fock matrix is symmetric either way)
    e = Expr(Add(*terms), real=case.get("real", True))
    if e.sympy == 0:
        raise BadCase("zero")
    has_f = any(o["name"] == "f" for t in case["terms"] for o in t["objs"])
    models = []
    for k, (no, nv) in enumerate([(2, 3), (3, 2)]):
        m = Model(case["mseed"] + k, no, nv)
        en = m.full_tensor("e", 0, 1, "nonsym", 0)
        if case["block"]:
            f = m.full_tensor("fraw", 1, 1, "anti", 1).copy()
            f[:no, no:] = 0
            f[no:, :no] = 0
        else:
            f = np.diag(en) % P
        m.set_tensor("f", 1, 1, f, kind="anti", bk=1)
        if not case.get("real", True):
            m.meta[("f", 1, 1)] = ("any", "any")
        models.append(m)
    if case["block"]:
        r.sample = f"block_diagonalize_fock({e})"
        ok, out = lib_call(r, "block_diagonalize_fock",
                           lambda: e.copy().block_diagonalize_fock(),
                           refusals=(NotImplementedError,))
        if ok:
            cmp_value(r, "block_diagonalize_fock", models, e.sympy, out,
                      targets)
    else:
        r.sample = f"diagonalize_fock({e}) targets={targets}"
        ok, out = lib_call(r, "diagonalize_fock",
                           lambda: e.copy().diagonalize_fock(),
                           refusals=(NotImplementedError,))
        if ok:
            cmp_value(r, "diagonalize_fock", models, e.sympy, out, targets)
            pt = out.provided_target_idx
            if pt is None or set(pt) != set(targets):
                r.fail("diagonalize_fock/targets",
                       f"{e} -> {out}: provided_target_idx {pt}, free "
                       f"indices of the input {targets}")
    contracted_f = False
    for t in case["terms"]:
        cnt = term_label_count(t)
        for o in t["objs"]:
            if o["name"] == "f" and any(l not in case["targets"]
                                        for l in o["u"] + o["l"]):
                contracted_f = True
    r.nontrivial = has_f and contracted_f
    if not case.get("real", True):
        r.cls("fock_complex_orbitals")
    r.cls("fock_block" if case["block"] else "fock_diag",
          "has_f" if has_f else "no_f")


def run_case(case):
    r = R()
    if case["sub"] == "fock":
        run_fock(case, r)
    else:
        run_frac(case, r)
    return r


def run_shard(col, shard, nshards, seed, tier):
    drive(strategy(tier), run_case, N_EXAMPLES[tier], seed * 1000 + shard,
          col)


def self_test():
    common.self_test_model()
