"""C20 - unitary-tensor simplification preserves the value for orthogonal
tensors."""
import itertools
from collections import Counter

import numpy as np
from hypothesis import strategies as st
from sympy import S, Add, Mul

from adcgen import Expr, simplify_unitary
from adcgen.indices import Index
from adcgen.sympy_objects import KroneckerDelta

from ..gen import (build_term, syms, label_class, term_label_count, BadCase,
                   ALPHABET, sort_labels)
from ..model import Model, evaluate, idx_key, P, inv, ModelResample
from ..runner import R, drive, lib_call
from .. import common

ID = "C20"
RULE = ("Hypothesis: sums of 1-2 products of 2-6 copies (incl. powers) of a "
        "two-index tensor U (NonSymmetricTensor or AntiSymmetricTensor "
        "without bra-ket symmetry) with all indices in one space, first- or "
        "second-position contractions, 0-3 remainder tensors (exponents "
        "-2..2, i.e. also in a denominator) that may carry the shared index, "
        "Einstein or explicit target sets, "
        "evaluate_deltas on/off; oracle: value on F_p models in which U is "
        "an exactly orthogonal matrix on that space (Cayley transform of a "
        "random skew-symmetric matrix). Pairs sharing BOTH indices while "
        "neither occurs elsewhere are outside the stated domain and are "
        "excluded by construction (counted). Non-trivial: >= 1 resolvable "
        "pair and (>= 1 non-resolvable pair or a power >= 2).")
BUDGET = {"quick": 75, "thorough": 1200}
N_EXAMPLES = {"quick": 700, "thorough": 15000}
ASSUMPTIONS = ["U U^T = 1 holds exactly in F_p for the Cayley transform"]


def orthogonal(n, rng):
    """(1-A)(1+A)^-1 mod P for random skew-symmetric A"""
    A = np.zeros((n, n), dtype=object)
    for x in range(n):
        for y in range(x + 1, n):
            v = int(rng.integers(1, P))
            A[x, y] = v
            A[y, x] = (-v) % P
    M = [[(int(A[x, y]) + (1 if x == y else 0)) % P for y in range(n)]
         + [1 if x == y else 0 for y in range(n)] for x in range(n)]
    for col in range(n):
        piv = next((r_ for r_ in range(col, n) if M[r_][col] % P), None)
        if piv is None:
            raise ModelResample("singular 1+A")
        M[col], M[piv] = M[piv], M[col]
        iv = inv(M[col][col])
        M[col] = [x * iv % P for x in M[col]]
        for r_ in range(n):
            if r_ != col and M[r_][col]:
                f_ = M[r_][col]
                M[r_] = [(x - f_ * y) % P for x, y in zip(M[r_], M[col])]
    Inv = np.array([row[n:] for row in M], dtype=object)
    ImA = np.array([[((1 if x == y else 0) - int(A[x, y])) % P
                     for y in range(n)] for x in range(n)], dtype=object)
    U = ImA.dot(Inv) % P
    U = np.array(U.tolist(), dtype=np.int64)
    assert ((U @ U.T) % P == np.eye(n, dtype=np.int64)).all()
    return U


REMAINDERS = [("N", "x", 2), ("N", "z", 1), ("N", "w", 4), ("N", "y", 3),
              ("A", "f", 2), ("S", "R", 2)]


@st.composite
def st_term(draw, space, ukind, pool, other_pool):
    def mk(p, q, e=1):
        if ukind == "N":
            return {"k": "N", "name": "U", "u": [p, q], "l": [], "exp": e}
        return {"k": "A", "name": "U", "u": [p], "l": [q], "bk": 0, "exp": e}
    objs = []
    commons = [c for c in pool[-2:]]
    pool = pool[:-2]
    # remainder objects may also carry the shared index of a constructed
    # pair (the pair must then be left untouched)
    rpool = pool + commons if draw(st.integers(0, 2)) == 0 else pool
    n_res = draw(st.integers(0, 2))
    for k in range(n_res):   # constructed pair sharing exactly one index
        c = commons[k]
        x, y = draw(st.sampled_from(pool)), draw(st.sampled_from(pool))
        if draw(st.booleans()):
            objs += [mk(c, x), mk(c, y)]
        else:
            objs += [mk(x, c), mk(y, c)]
    n_rand = draw(st.integers(0 if n_res else 2, 4))
    for _ in range(n_rand):
        p, q = draw(st.sampled_from(pool)), draw(st.sampled_from(pool))
        e = draw(st.sampled_from([1] * 8 + [2, 3])) if p != q else 1
        objs.append(mk(p, q, e))
    objs = list(draw(st.permutations(objs)))
    for _ in range(draw(st.integers(0, 3))):
        kd, nm, rank = draw(st.sampled_from(REMAINDERS))
        labels = [draw(st.sampled_from(rpool + other_pool
                                       if draw(st.booleans())
                                       else rpool)) for _ in range(rank)]
        if kd == "N":
            # also in a denominator: an index on an object with a negative
            # exponent counts as an occurrence like any other
            ex = draw(st.sampled_from([1] * 6 + [-1, -1, -2, 2]))
            objs.append({"k": "N", "name": nm, "u": labels, "l": [],
                         "exp": ex})
        else:
            objs.append({"k": kd, "name": nm, "u": labels[:1], "l": labels[1:],
                         "bk": 0, "exp": 1})
    p_ = draw(st.sampled_from([1, 1, -1, 2, 3]))
    q_ = draw(st.sampled_from([1, 1, 2, 4]))
    return {"pref": [p_, q_], "sqrt": 0, "syms": [], "objs": objs}


@st.composite
def st_case(draw):
    space = draw(st.sampled_from(["occ", "virt", "general"]))
    ukind = draw(st.sampled_from(["N", "N", "A"]))
    letters = ALPHABET[space]
    names = list(letters[:6]) + [letters[0] + "3", letters[1] + "1"]
    npool = draw(st.integers(4, 8))
    pool = list(draw(st.permutations(names)))[:npool]
    other = ["a", "b"] if space == "occ" else ["i", "j"]
    terms = [draw(st_term(space, ukind, pool, other))]
    if draw(st.integers(0, 3)) == 0:
        terms.append(draw(st_term(space, ukind, pool, other)))
    explicit = draw(st.integers(0, 2)) == 0
    extra_t = []
    if explicit:
        allidx = sorted({l for t in terms for l in term_label_count(t)})
        extra_t = [l for l in allidx if draw(st.integers(0, 3)) == 0]
    return {"terms": terms, "space": space, "explicit": explicit,
            "extra_targets": extra_t, "evd": draw(st.booleans()),
            "mseed": draw(st.integers(0, 2**31))}


def strategy(tier):
    return st_case()


def u_factors(term):
    out = []
    for o in term["objs"]:
        if o["name"] == "U":
            idx = tuple(o["u"] + o.get("l", []))
            out.extend([idx] * o["exp"])
    return out


def analyse(term, targets):
    """-> (n resolvable pairs, n non resolvable one-index pairs, out of
    domain?)"""
    cnt = term_label_count(term)
    us = u_factors(term)
    res = nonres = 0
    ood = False
    for (a, b) in itertools.combinations(range(len(us)), 2):
        i1, i2 = us[a], us[b]
        if i1 == i2:
            # a pair sharing BOTH indices: resolving it yields delta_qq = 1
            # and loses the sum over q when q lives on U factors only (the
            # counts of indices shrink while other pairs are resolved, hence
            # the criterion looks at non-U objects only). Outside the stated
            # domain (pairs sharing exactly one index) -> excluded.
            non_u = set()
            for o in term["objs"]:
                if o["name"] != "U":
                    non_u.update(o.get("u", []) + o.get("l", []))
            if i1[0] != i1[1] and not any(x in non_u for x in i1) and \
                    not all(x in targets for x in i1):
                ood = True
            continue
        for pos in (0, 1):
            if i1[pos] == i2[pos] and i1[1 - pos] != i2[1 - pos]:
                c = i1[pos]
                if c not in targets and cnt[c] == 2:
                    res += 1
                else:
                    nonres += 1
    return res, nonres, ood


def run_case(case):
    r = R()
    terms_d = case["terms"]
    # the same object in numerator and denominator cancels when the term is
    # built: the description would then no longer describe the term
    for t in terms_d:
        seen = {}
        for o in t["objs"]:
            key = (o["k"], o["name"], tuple(o.get("u", [])),
                   tuple(o.get("l", [])))
            sg = 1 if int(o["exp"]) > 0 else -1
            if seen.setdefault(key, sg) != sg or int(o["exp"]) == 0:
                raise BadCase("object in numerator and denominator")
    # all terms need the same free indices: use explicit targets when the
    # Einstein sets differ
    ein = [sorted(l for l, n in term_label_count(t).items() if n == 1)
           for t in terms_d]
    explicit = case["explicit"] or any(e != ein[0] for e in ein)
    tl = sorted(set(sum(ein, [])) | set(case["extra_targets"])) if explicit \
        else ein[0]
    targets = tuple(sorted(syms(tl), key=idx_key))
    built = [build_term(t) for t in terms_d]
    if any(b == 0 for b in built):
        raise BadCase("vanishing term")
    kw = {"target_idx": list(targets)} if explicit else {}
    e = Expr(Add(*built), **kw)
    if len(e) != len(built):
        raise BadCase("terms merged")
    res = nonres = 0
    for t in terms_d:
        a, b, ood = analyse(t, tl)
        if ood:
            r.excluded.append("pair_sharing_both_indices_out_of_domain")
            r.sample = f"(excluded) {e}"
            return r
        res += a
        nonres += b
    r.sample = f"simplify_unitary({e}, 'U', evaluate_deltas={case['evd']}) targets={targets}"
    ok, out0 = lib_call(r, "simplify_unitary", simplify_unitary, e.copy(), "U",
                        evaluate_deltas=False)
    if not ok:
        return r
    outs = [("plain", out0)]
    out = out0
    if case["evd"]:
        # delta evaluation is only specified (C09) when every summed index
        # also sits on a non-delta object; otherwise delta_pq -> 1 loses a
        # factor dim (known finding F8): decide domain membership on the
        # (value-checked) result without delta evaluation.
        bad = False
        for t in Add.make_args(out0.sympy):
            nd = set()
            for f in Mul.make_args(t):
                if not isinstance(f, KroneckerDelta) and not (
                        f.is_Pow and isinstance(f.args[0], KroneckerDelta)):
                    nd |= f.atoms(Index)
            if any(i not in nd and i not in targets for i in t.atoms(Index)):
                bad = True
        if bad and not case.get("include_known"):
            r.excluded.append("F8_generated_delta_with_summed_indices_"
                              "on_no_other_object")
        else:
            ok, out = lib_call(r, "simplify_unitary_evd", simplify_unitary,
                               e.copy(), "U", evaluate_deltas=True)
            if not ok:
                return r
            outs.append(("evaluate_deltas_F8class" if bad
                         else "evaluate_deltas", out))
    for tag, o_ in outs:
        if o_.provided_target_idx != e.provided_target_idx:
            r.fail("assumptions", f"{e.assumptions} -> {o_.assumptions}")
    space = case["space"]
    tries = 0
    for k, (no, nv) in enumerate([(3, 2), (2, 3)]):
        while True:
            try:
                m = Model(case["mseed"] + k + 100 * tries, no, nv)
                n = {"occ": m.no, "virt": m.nv, "general": m.N}[space]
                off = {"occ": 0, "virt": m.no, "general": 0}[space]
                U = np.zeros((m.N, m.N), dtype=np.int64)
                U[off:off + n, off:off + n] = orthogonal(
                    n, np.random.default_rng([m.seed, 77]))
                m.set_tensor("U", 0, 2, U, kind="nonsym")
                m.set_tensor("U", 1, 1, U, kind="anti", bk="any")
                m.meta[("U", 1, 1)] = ("any", "any")
                v0 = evaluate(m, e.sympy, targets)
                vs = [(tag, evaluate(m, o_.sympy, targets)) for tag, o_ in outs]
                break
            except ModelResample:
                tries += 1
                r.resampled += 1
                if tries > 5:
                    raise
        stop = False
        for (tag, v1), (_, o_) in zip(vs, outs):
            if not (v0 == v1).all():
                r.fail(f"value/{tag}", f"{e} -> {o_} (targets {targets}, U "
                       f"orthogonal on {space})")
                stop = True
        if stop:
            break
    changed = out.sympy != e.sympy
    powers = any(o["name"] == "U" and o["exp"] >= 2 for t in terms_d
                 for o in t["objs"])
    r.nontrivial = res >= 1 and (nonres >= 1 or powers) and changed
    r.cls(f"space={space}", "changed" if changed else "unchanged",
          f"resolvable={min(res, 3)}", f"nonresolvable={min(nonres, 3)}")
    if powers:
        r.cls("power")
    if any(o["name"] != "U" and o["exp"] < 0 for t in terms_d
           for o in t["objs"]):
        r.cls("remainder_in_denominator")
    if explicit:
        r.cls("explicit_targets")
    return r


def run_shard(col, shard, nshards, seed, tier):
    drive(strategy(tier), run_case, N_EXAMPLES[tier], seed * 1000 + shard,
          col)


def self_test():
    common.self_test_model()
    U = orthogonal(4, np.random.default_rng(5))
    assert ((U.T @ U) % P == np.eye(4, dtype=np.int64)).all()
