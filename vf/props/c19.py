"""C19 - results are independent of call history, hash seed and tensor-name
configuration."""
import json
import re
import os
import shutil
import subprocess
import sys
import tempfile

from hypothesis import strategies as st

from ..gen import BadCase
from ..model import HarnessError
from ..runner import R, drive, ROOT
from .. import common

ID = "C19"
RULE = ("Fixed: every pool request once with a non-zero PYTHONHASHSEED, 16 "
        "requests under two name configurations, 16 requests after the same "
        "kind of request on another object configuration (ground states with / "
        "without first-order singles, other variants); Hypothesis draws (request "
        "from a pool of 30 derivation / "
        "transformation requests, history of 0-6 other requests and explicit "
        "/ generic / spin index requests, PYTHONHASHSEED, optional "
        "tensor-name configuration). Every tuple runs in a FRESH interpreter "
        "(vf/c19_worker.py); oracle: the text after expand + "
        "substitute_contracted (and after simplify) and value fingerprints "
        "on two fixed F_p models are identical to those of the same request "
        "with empty history and hash seed 0; operator-valued requests "
        "(psi, precursor) and norm factors requested twice share no "
        "contracted index; with a generated tensor_names.json (scratch copy "
        "of the package under $TMPDIR, removed afterwards) the result, with "
        "tensors renamed back by reconstruction, has the same text and "
        "fingerprints, and the default-name baseline text imported with "
        "convert_default_names=True has that value and those tensor kinds too. "
        "Non-trivial: non-empty history containing a request "
        "that advances the generic counters or fills a cache the request "
        "reads, or a non-zero hash seed, or a name configuration.")
BUDGET = {"quick": 150, "thorough": 2400}
N_EXAMPLES = {"quick": 3, "thorough": 40}
ASSUMPTIONS = ["fresh processes; the baseline (empty history, hash seed 0, "
               "default names) is computed once per request and shard"]

REQUESTS = ["energy2", "re_energy2", "mp_amp_2_ph", "mp_amp_1_pphh",
            "expec_2", "psi_2", "norm_2", "norm_4", "expand_density",
            "precursor_1", "overlap_pre_2",
            "m_ph_ph_1", "m_ph_ph_2", "m_ip_2", "mvp_1", "tm_1", "tm_2",
            "expec_block_1", "t2_2", "t1_2_once", "p0_2_oo", "reduce_t1_2",
            "p0_3_oo", "p0_3_vv", "t1_3", "t2eri_A", "re_energy2_s",
            "energy2_s", "re_resid_1_s", "psi_1_s"]
CHEAP_HISTORY = ["energy2", "re_energy2", "re_energy2_s", "energy2_s",
                 "mp_amp_2_ph", "psi_2", "norm_2", "precursor_1",
                 "m_ph_ph_1", "tm_1", "t2_2", "p0_2_oo", "expec_2",
                 "overlap_pre_2", "mvp_1"]
NAME_POOL = ["W", "u", "h", "g", "T", "r", "L", "R", "eps", "Delta", "G", "H",
             "J", "K", "M", "c", "m"]
FIELDS = ["eri", "coulomb", "fock", "operator", "gs_amplitude", "gs_density",
          "left_adc_amplitude", "right_adc_amplitude", "orb_energy",
          "sym_orb_denom"]
DEFAULTS = {"eri": "V", "coulomb": "v", "fock": "f", "operator": "d",
            "gs_amplitude": "t", "gs_density": "p",
            "left_adc_amplitude": "X", "right_adc_amplitude": "Y",
            "orb_energy": "e", "sym_orb_denom": "D"}


@st.composite
def st_case(draw):
    req = draw(st.sampled_from(REQUESTS))
    hist = []
    for _ in range(draw(st.integers(0, 6))):
        kind = draw(st.sampled_from(["generic", "explicit", "spin", "req",
                                     "req", "req"]))
        if kind == "req":
            hist.append([draw(st.sampled_from(CHEAP_HISTORY)), 0])
        else:
            hist.append([kind, draw(st.integers(0, 11))])
    names = None
    if draw(st.integers(0, 3)) == 0:
        new = list(draw(st.permutations(NAME_POOL)))[:len(FIELDS)]
        keep = draw(st.lists(st.booleans(), min_size=len(FIELDS),
                             max_size=len(FIELDS)))
        names = {f: (DEFAULTS[f] if k else n)
                 for f, n, k in zip(FIELDS, new, keep)}
    return {"request": req, "history": hist,
            "hashseed": draw(st.sampled_from([0, 1, 2, 12345, 987654321])),
            "names": names}


def strategy(tier):
    return st_case()


_BASE = {}
_PKG = {}


def run_worker(job, hashseed, pythonpath_first=None):
    env = dict(os.environ)
    env["PYTHONHASHSEED"] = str(hashseed)
    env["ADCGEN_LOG_LEVEL"] = "ERROR"
    pp = [ROOT, os.path.join(ROOT, ".deps")]
    if pythonpath_first:
        pp.insert(0, pythonpath_first)
    elif env.get("VERIF_REPO"):
        pp.insert(0, env["VERIF_REPO"])
    env["PYTHONPATH"] = os.pathsep.join(pp)
    p = subprocess.run([sys.executable, "-m", "vf.c19_worker",
                        json.dumps(job)], env=env, cwd=ROOT,
                       capture_output=True, text=True, timeout=1500)
    for line in p.stdout.splitlines():
        if line.startswith("C19RESULT "):
            return json.loads(line[len("C19RESULT "):]), None
    return None, (p.stderr or p.stdout)[-1500:]


def package_copy(names):
    """scratch copy of the package with a generated tensor_names.json"""
    key = json.dumps(names, sort_keys=True)
    if key in _PKG:
        return _PKG[key]
    import adcgen
    src = os.path.dirname(os.path.realpath(adcgen.__file__))
    tmp = tempfile.mkdtemp(prefix="c19-names-")
    shutil.copytree(src, os.path.join(tmp, "adcgen"),
                    ignore=shutil.ignore_patterns("__pycache__"))
    with open(os.path.join(tmp, "adcgen", "tensor_names.json"), "w") as fh:
        json.dump(names, fh)
    _PKG[key] = tmp
    import atexit
    atexit.register(shutil.rmtree, tmp, True)
    return tmp


def names_back_map(names):
    """tensor name (configured) -> default name, incl. amplitude/density
    names with their order suffix"""
    back = {}
    for f, new in names.items():
        old = DEFAULTS[f]
        if new == old:
            continue
        if f in ("gs_amplitude", "gs_density"):
            for suffix in ["", "1", "2", "3", "4", "1cc", "2cc", "3cc", "cc"]:
                back[new + suffix] = old + suffix
        else:
            back[new] = old
    return back


def run_case(case):
    r = R()
    req = case["request"]
    if req not in REQUESTS and not case.get("include_known"):
        raise BadCase("unknown request")
    if req not in _BASE:
        base, err = run_worker({"request": req, "history": [],
                                "simplify": True}, 0)
        if base is None:
            # the request itself fails: not a history effect
            frame = "worker"
            r.fail("baseline_failed", f"{req}: {err}")
            return r
        _BASE[req] = base
    base = _BASE[req]
    job = {"request": req, "history": case["history"], "simplify": True}
    pp = None
    if case["names"]:
        pp = package_copy(case["names"])
        job["names_back"] = names_back_map(case["names"])
        job["adcgen_root"] = pp
        if base.get("text") and not re.search(r"\d\.\d", base["text"]):
            # (texts with float literals are not imported here; t2eri_A/B
            #  held the floats 0.5 / -0.5 until fix e0d2a77, finding F32)
            job["default_text"] = base["text"]
    got, err = run_worker(job, case["hashseed"], pp)
    r.sample = (f"{req} after history {case['history']} with PYTHONHASHSEED="
                f"{case['hashseed']} names={case['names']}")
    if got is None:
        r.fail("worker_failed", f"{r.sample}: {err}")
        return r
    for key in ("fp", "n_terms", "text", "text_simplified"):
        if got.get(key) != base.get(key):
            sub = f"differs/{key}" + ("/names" if case["names"] else "")
            if key.startswith("text") and case["history"] and \
                    got.get("fp") == base.get("fp") and \
                    got.get("n_terms") == base.get("n_terms"):
                # known finding F27: equal value, equal number of terms, but
                # the lowest-name text depends on the generic names that the
                # preceding calls consumed
                sub = "differs/text_after_history_F27"
            if case.get("include_known") and req == "re_resid_j3":
                sub = "differs/explicit_name_equals_used_generic_name_F28"
            r.fail(sub,
                   f"{r.sample}:\n  baseline {str(base.get(key))[:400]}\n  "
                   f"got      {str(got.get(key))[:400]}")
            break
    if got.get("convert_error"):
        r.fail("names/convert_default_names/exception",
               f"{r.sample}: {got['convert_error']}")
    elif "convert_fp" in got and (got["convert_fp"] != got.get("fp") or
                                  got.get("convert_kinds")):
        r.fail("names/convert_default_names",
               f"{r.sample}: the default-name result imported with "
               f"convert_default_names=True differs from the configured-name "
               f"result (fingerprints {got['convert_fp']} vs {got.get('fp')}"
               f", tensor kinds {got.get('convert_kinds')})")
    if got.get("malformed_terms"):
        r.fail("norm_factor_index_reuse", f"{req}: terms in which a summed "
               f"index does not occur exactly twice: {got['malformed_terms']}")
    if got.get("shared_contracted"):
        r.fail("shared_contracted_indices", f"{req} requested twice shares "
               f"the indices {got['shared_contracted']}")
    advancing = any(h[0] in ("generic", "explicit") or h[0] in CHEAP_HISTORY
                    for h in case["history"])
    r.nontrivial = advancing or case["hashseed"] != 0 or bool(case["names"])
    r.cls(req, f"history={min(len(case['history']), 6)}",
          f"hashseed={'0' if case['hashseed'] == 0 else 'other'}")
    if case["names"]:
        r.cls("name_config")
    return r


# fixed name-configuration cases (one per shard): configured names of
# different lengths, requests that read the configured names back (order of
# an amplitude / density name, intermediate lookup by long name, printing)
CONF_A = {"eri": "W", "coulomb": "u", "fock": "h", "operator": "Delta",
          "gs_amplitude": "T", "gs_density": "rho",
          "left_adc_amplitude": "L", "right_adc_amplitude": "R",
          "orb_energy": "eps", "sym_orb_denom": "G"}
CONF_B = dict(DEFAULTS, gs_amplitude="amp", gs_density="P", eri="J",
              sym_orb_denom="Delta")
FIXED_REQ = ["expand_density", "p0_2_oo", "t2_2", "reduce_t1_2", "m_ph_ph_2",
             "tm_2", "expec_block_1", "mvp_1", "norm_2", "energy2",
             "mp_amp_2_ph", "psi_2", "precursor_1", "expec_2", "tm_1",
             "t1_2_once"]


# fixed hash-seed cases (one per shard): every pool request once with a
# non-zero PYTHONHASHSEED and empty history
HASHSEEDS = [1, 2, 12345, 987654321]


# fixed history cases: the same kind of request on another object
# configuration first (instances must not share caches)
FIXED_HIST = [(["re_energy2"], "re_energy2_s"), (["re_energy2_s"], "re_energy2"),
              (["energy2"], "energy2_s"), (["energy2_s"], "energy2"),
              (["energy2"], "re_energy2"), (["re_energy2"], "energy2"),
              (["psi_2"], "psi_1_s"), (["psi_1_s"], "psi_2"),
              (["re_energy2"], "re_resid_1_s"), (["m_ph_ph_1"], "m_ip_2"),
              (["m_ip_2"], "m_ph_ph_1"), (["tm_1"], "expec_block_1"),
              (["mp_amp_2_ph"], "t1_2_once"), (["p0_2_oo"], "expand_density"),
              (["norm_2"], "norm_4"), (["precursor_1"], "overlap_pre_2")]


def run_shard(col, shard, nshards, seed, tier):
    for k in range(shard, len(FIXED_HIST), nshards):
        hist, req = FIXED_HIST[k]
        col.run({"request": req, "history": [[h, 0] for h in hist],
                 "hashseed": 0, "names": None}, run_case)
    for k in range(shard, len(REQUESTS), nshards):
        col.run({"request": REQUESTS[k], "history": [],
                 "hashseed": HASHSEEDS[(k + seed) % len(HASHSEEDS)],
                 "names": None}, run_case)
    for k in range(shard, 2 * len(FIXED_REQ), nshards):
        conf = CONF_A if (k // len(FIXED_REQ) + k) % 2 == 0 else CONF_B
        if tier == "quick" and k >= len(FIXED_REQ):
            break
        col.run({"request": FIXED_REQ[k % len(FIXED_REQ)], "history": [],
                 "hashseed": 0, "names": dict(conf)}, run_case)
    drive(strategy(tier), run_case, N_EXAMPLES[tier], seed * 1000 + shard,
          col)


SHRINK = False


def self_test():
    common.self_test_model()
