"""Independent interpreter for the text produced by adcgen.generate_code
(einsum and libtensor dialects), evaluated on an F_p tensor model."""
import re

import numpy as np
from sympy import Rational

from .model import P, contract, number_mod, root, inv, HarnessError
from .interp import my_longname, leaf_array


class CodeError(Exception):
    """The emitted program is malformed / not interpretable."""


TOKEN = re.compile(r"""
    \s*(?:
      (?P<str>"[^"]*")
    | (?P<num>\d+\.\d*(?:[eE][-+]?\d+)?|\d+)
    | (?P<id>[A-Za-z_][A-Za-z_0-9]*(?:(?:\.|::)[A-Za-z_0-9]+)*)
    | (?P<op>[()*/,|+\-])
    )""", re.X)


def tokenize(text):
    pos = 0
    out = []
    text = text.strip()
    while pos < len(text):
        m = TOKEN.match(text, pos)
        if not m or m.end() == pos:
            raise CodeError(f"cannot tokenise {text[pos:pos + 30]!r}")
        pos = m.end()
        for kind in ("str", "num", "id", "op"):
            if m.group(kind) is not None:
                out.append((kind, m.group(kind)))
    return out


def split_names(s):
    """'ij12a3' -> ['i', 'j12', 'a3'] (index-name rule: letter + digits)"""
    out = re.findall(r"[A-Za-z]\d*", s)
    if "".join(out) != s:
        raise CodeError(f"bad index string {s!r}")
    return out


class Val:
    """scalar (arr is int) or array with an index tuple"""

    def __init__(self, arr, idx=None):
        self.arr = arr
        self.idx = idx

    @property
    def scalar(self):
        return self.idx is None


class Interp:
    def __init__(self, model, leaves, idx_by_name, backend, target):
        """leaves: list of sympy tensor/delta objects of the expression;
        idx_by_name: {name: Index} (names unique); target: tuple[Index]"""
        self.m = model
        self.backend = backend
        self.idx_by_name = idx_by_name
        self.target = tuple(target)
        self.by_longname = {}
        for base in leaves:
            self.by_longname.setdefault(my_longname(base), []).append(base)

    # ----------------------------------------------------------- operands
    def longname_of(self, name):
        if self.backend == "einsum":
            if name.startswith("hf.f"):
                return "f_" + name[4:]
            if name.startswith("hf."):
                return "V_" + name[3:]
        else:
            if name.startswith("i_"):
                return "V_" + name[2:]
            m = re.fullmatch(r"pi(\d+)", name)
            if m:
                return "t2eri_" + m.group(1)
        return name

    def operand(self, name, idx):
        ln = self.longname_of(name)
        cands = self.by_longname.get(ln)
        if not cands:
            raise CodeError(f"unknown tensor name {name!r} (no tensor of the "
                            "expression has this block name)")
        sig = {(type(b).__name__, getattr(b, "name", "delta"),
                len(getattr(b, "upper", ())), len(getattr(b, "lower", ())))
               for b in cands}
        if len(sig) > 1:
            raise CodeError(f"ambiguous tensor name {name!r}: {sig}")
        base = cands[0]
        if len(base.idx) != len(idx):
            raise CodeError(f"{name} used with {len(idx)} indices, the tensor "
                            f"has {len(base.idx)}")
        # the block name fixes the space of every axis (a general axis of
        # the named block covers every space)
        spaces = "".join(i.space[0] for i in base.idx)
        got = "".join(i.space[0] for i in idx)
        encodes_space = ln.endswith("_" + spaces)
        for a, b in zip(spaces, got):
            if encodes_space and a != b and a != "g":
                raise CodeError(f"{name} is the block {spaces} but is "
                                f"indexed with {got}")
        full = self._full_array(base)
        sel = np.ix_(*[self.m.positions(i) for i in idx])
        return Val(full[sel], tuple(idx))

    def _full_array(self, base):
        """array over all orbitals in the library's idx order"""
        from adcgen.sympy_objects import (KroneckerDelta, NonSymmetricTensor,
                                          Amplitude, SymmetricTensor)
        m = self.m
        if isinstance(base, KroneckerDelta):
            return np.eye(m.N, dtype=np.int64)
        name = m.alias.get(base.name, base.name)
        if isinstance(base, NonSymmetricTensor):
            return m.full_tensor(name, 0, len(base.idx), "nonsym", 0)
        kind = "sym" if isinstance(base, SymmetricTensor) else "anti"
        nu, nl = len(base.upper), len(base.lower)
        bk = m.bk.get(name, int(base.bra_ket_sym))
        arr = m.full_tensor(name, nu, nl, kind, bk)
        if isinstance(base, Amplitude):
            arr = np.transpose(arr, list(range(nu, nu + nl)) + list(range(nu)))
        return arr

    def index(self, name):
        if name not in self.idx_by_name:
            raise CodeError(f"index {name!r} does not occur in the expression")
        return self.idx_by_name[name]

    # -------------------------------------------------------------- parser
    def eval_line(self, text):
        self.toks = tokenize(text)
        self.p = 0
        self.ctx = [self.target]
        v = self.expr()
        if self.p != len(self.toks):
            raise CodeError(f"trailing tokens in {text!r}")
        return v

    def peek(self):
        return self.toks[self.p] if self.p < len(self.toks) else (None, None)

    def take(self, kind=None, val=None):
        k, v = self.peek()
        if k is None or (kind and k != kind) or (val and v != val):
            raise CodeError(f"expected {val or kind}, got {v!r}")
        self.p += 1
        return v

    def expr(self):
        v = self.factor()
        while self.peek() in (("op", "*"), ("op", "/")):
            op = self.take()
            w = self.factor()
            v = self.mul(v, w) if op == "*" else self.div(v, w)
        return v

    def mul(self, a, b):
        if a.scalar and b.scalar:
            return Val(a.arr * b.arr % P)
        if a.scalar:
            return Val(a.arr * b.arr % P, b.idx)
        if b.scalar:
            return Val(a.arr * b.arr % P, a.idx)
        if self.backend != "libtensor":
            raise CodeError("product of two arrays outside einsum")
        if set(a.idx) & set(b.idx):
            raise CodeError("juxtaposed tensors share a label")
        out = a.idx + b.idx
        return Val(contract(self.m, [(a.arr, a.idx), (b.arr, b.idx)], out),
                   out)

    def div(self, a, b):
        if not b.scalar:
            raise CodeError("division by an array")
        return self.mul(a, Val(inv(b.arr)))

    def factor(self):
        k, v = self.peek()
        if k == "num":
            self.take()
            return Val(number_mod(Rational(v)))
        if k == "op" and v == "(":
            self.take()
            r = self.expr()
            self.take("op", ")")
            return r
        if k != "id":
            raise CodeError(f"unexpected token {v!r}")
        self.take()
        if v == "sqrt":
            self.take("op", "(")
            n = self.take("num")
            self.take("op", ")")
            return Val(root(int(n)))
        if v.startswith("constants::sq"):
            return Val(root(int(v[len("constants::sq"):])))
        if v == "einsum":
            return self.einsum()
        if v in ("contract", "dot_product"):
            return self.lt_contract(v)
        if self.peek() == ("op", "("):       # libtensor labelled tensor
            self.take()
            labels = self.labels()
            self.take("op", ")")
            idx = tuple(self.index(n) for n in labels)
            return self.operand(v, idx)
        # bare identifier: symbol or (einsum) tensor carrying the target
        ln = self.longname_of(v)
        if ln in self.by_longname:
            return self.operand(v, self.ctx[-1])
        return Val(self.m.symbol(v))

    def labels(self):
        out = []
        while self.peek()[0] == "id":
            out.extend(split_names(self.take()))
            if self.peek() == ("op", "|"):
                self.take()
        return out

    def einsum(self):
        self.take("op", "(")
        spec = self.take("str").strip('"')
        if "->" not in spec:
            raise CodeError(f"einsum string without '->': {spec}")
        lhs, rhs = spec.split("->")
        subs = lhs.split(",")
        facs = []
        for sub in subs:
            self.take("op", ",")
            idx = tuple(self.index(n) for n in split_names(sub))
            # an operand is an expression (e.g. 'einsum(..->) * z_o'); bare
            # tensor names inside it carry this operand's subscripts
            self.ctx.append(idx)
            val = self.expr()
            self.ctx.pop()
            if val.scalar:
                if idx:
                    raise CodeError("scalar operand with subscripts "
                                    f"{sub!r}")
                facs.append((np.array(val.arr, dtype=np.int64), ()))
                continue
            if len(val.idx) != len(idx):
                raise CodeError("einsum operand rank mismatch")
            # positional semantics: the axes get the subscripts of the spec
            for a, b in zip(val.idx, idx):
                if self.m.positions(a) != self.m.positions(b):
                    raise CodeError("einsum operand axis range mismatch: "
                                    f"{val.idx} used as {idx}")
            facs.append((val.arr, idx))
        self.take("op", ")")
        out = tuple(self.index(n) for n in split_names(rhs)) if rhs else ()
        if len(set(out)) != len(out):
            raise CodeError(f"repeated output index in {spec}")
        for i in out:
            if not any(i in idx for _, idx in facs):
                raise CodeError(f"output index {i} not on any operand: {spec}")
        arr = contract(self.m, facs, out)
        return Val(arr, out) if out else Val(int(arr))

    def lt_contract(self, fn):
        self.take("op", "(")
        summed = ()
        if fn == "contract":
            summed = tuple(self.index(n) for n in self.labels())
            self.take("op", ",")
        ops = []
        while True:
            val = self.expr()
            if val.scalar:
                raise CodeError(f"scalar operand in {fn}")
            ops.append(val)
            if self.peek() == ("op", ","):
                self.take()
                continue
            break
        self.take("op", ")")
        all_idx = []
        for o in ops:
            for i in o.idx:
                if i not in all_idx:
                    all_idx.append(i)
        if fn == "dot_product":
            out = ()
        else:
            for i in summed:
                if i not in all_idx:
                    raise CodeError(f"contracted label {i} not on an operand")
            out = tuple(i for i in all_idx if i not in summed)
        arr = contract(self.m, [(o.arr, o.idx) for o in ops], out)
        return Val(arr, out) if out else Val(int(arr))


HEADER = "The scaling comment is given as: [comp_scaling] / [mem_scaling]"


def parse_perm_header(text):
    """'(1 - P_ij + P_ijP_ab)' or '1' -> [(factor, [(p, q), ...]), ...]"""
    text = text.strip()
    if text == "1":
        return []
    if not (text.startswith("(") and text.endswith(")")):
        raise CodeError(f"bad permutation header {text!r}")
    toks = text[1:-1].split()
    if not toks or toks[0] != "1":
        raise CodeError(f"permutation header without leading 1: {text!r}")
    out = []
    k = 1
    while k < len(toks):
        if toks[k] not in "+-" or k + 1 >= len(toks):
            raise CodeError(f"bad permutation header {text!r}")
        f = 1 if toks[k] == "+" else -1
        prod = toks[k + 1]
        perms = []
        for part in prod.split("P_")[1:]:
            names = split_names(part)
            if len(names) != 2:
                raise CodeError(f"bad permutation {part!r} in {text!r}")
            perms.append(tuple(names))
        if not perms:
            raise CodeError(f"bad permutation product {prod!r}")
        out.append((f, perms))
        k += 2
    return out


def run_program(text, make_interp, target, model):
    """Evaluate the whole generate_code output. Returns the array over the
    target tuple."""
    shape = tuple(model.dim(t) for t in target)
    total = np.zeros(shape, dtype=np.int64)
    sections = [s for s in text.split("\n\n") if s.strip()]
    n_calls = 0
    n_perm = 0
    for sec in sections:
        lines = [l for l in sec.split("\n") if l.strip()]
        if lines[0].strip() != HEADER:
            raise CodeError(f"missing header line: {lines[0]!r}")
        m = re.fullmatch(r"Apply (.*) to:", lines[1].strip())
        if not m:
            raise CodeError(f"missing 'Apply ... to:' line: {lines[1]!r}")
        perms = parse_perm_header(m.group(1))
        acc = np.zeros(shape, dtype=np.int64)
        for line in lines[2:]:
            code = re.split(r"\s+(?:#|//)", line, 1)[0].strip()
            if code[0] not in "+-":
                raise CodeError(f"line without sign: {line!r}")
            sign = 1 if code[0] == "+" else -1
            n_calls += code.count("einsum(") + code.count("contract(") + \
                code.count("dot_product(")
            v = make_interp().eval_line(code[1:])
            if v.scalar:
                if target:
                    raise CodeError(f"scalar line for a tensor result: {line}")
                arr = np.array(v.arr, dtype=np.int64)
            else:
                if set(v.idx) != set(target) or len(v.idx) != len(target):
                    raise CodeError(f"line result carries {v.idx}, requested "
                                    f"{target}: {line}")
                if make_interp().backend == "einsum" and \
                        tuple(v.idx) != tuple(target):
                    raise CodeError(f"einsum result order {v.idx} != "
                                    f"requested {target}: {line}")
                perm = [v.idx.index(t) for t in target]
                arr = np.transpose(v.arr, perm)
            acc = (acc + sign * arr) % P
        res = acc.copy()
        for f, plist in perms:
            n_perm += 1
            a = acc
            for p, q in plist:
                names = [t.name for t in target]
                if p not in names or q not in names:
                    raise CodeError(f"permutation P_{p}{q} of a non-target "
                                    "index")
                a = np.swapaxes(a, names.index(p), names.index(q))
            res = (res + f * a) % P
        total = (total + res) % P
    return total, n_calls, n_perm
