"""Case descriptions (plain JSON), builders to sympy/adcgen objects and the
Hypothesis strategies that generate them by construction (no filtering).

label  := "<letter><digits>[:a|:b]"          e.g. "i", "a12", "p:b"
obj    := {"k": A|S|T|N|K|F|Fd, "name": str, "u": [label], "l": [label],
           "bk": 0|1|-1, "exp": int}         (N, K, F, Fd use "u" only)
term   := {"pref": [p, q], "sqrt": int, "syms": [str], "objs": [obj]}
"""
from collections import Counter
import itertools

from hypothesis import strategies as st
from sympy import Rational, S, Symbol, sqrt, Mul, Add, Pow

from adcgen.indices import get_symbols, Index
from adcgen.sympy_objects import (
    AntiSymmetricTensor, SymmetricTensor, Amplitude, NonSymmetricTensor,
    KroneckerDelta, SymbolicTensor,
)
from sympy.physics.secondquant import F, Fd, NO, FermionicOperator

ALPHABET = {"occ": "ijklmno", "virt": "abcdefgh", "general": "pqrstuvw"}
SPACE_OF = {c: sp for sp, cs in ALPHABET.items() for c in cs}


class BadCase(Exception):
    """A (shrunk / hand written) case description that is not well formed."""


# ---------------------------------------------------------------- builders
def parse_label(lbl):
    if ":" in lbl:
        name, spin = lbl.split(":")
    else:
        name, spin = lbl, ""
    if not name or name[0] not in SPACE_OF or (name[1:] and
                                               not name[1:].isdigit()):
        raise BadCase(f"bad label {lbl}")
    if spin not in ("", "a", "b"):
        raise BadCase(f"bad label {lbl}")
    return name, spin


def label_class(lbl):
    name, spin = parse_label(lbl)
    return SPACE_OF[name[0]], spin


def sym(lbl):
    name, spin = parse_label(lbl)
    return get_symbols([name], spin if spin else None)[0]


def syms(labels):
    return tuple(sym(x) for x in labels)


def label_of(idx):
    return f"{idx.name}:{idx.spin}" if idx.spin else idx.name


def build_obj(o):
    k = o["k"]
    u = syms(o.get("u", []))
    lo = syms(o.get("l", []))
    e = int(o.get("exp", 1))
    if k == "A":
        base = AntiSymmetricTensor(o["name"], u, lo, int(o.get("bk", 0)))
    elif k == "S":
        base = SymmetricTensor(o["name"], u, lo, int(o.get("bk", 0)))
    elif k == "T":
        base = Amplitude(o["name"], u, lo, int(o.get("bk", 0)))
    elif k == "N":
        base = NonSymmetricTensor(o["name"], u)
    elif k == "K":
        if len(u) != 2:
            raise BadCase("delta needs two indices")
        base = KroneckerDelta(*u)
    elif k == "F":
        base = F(u[0])
    elif k == "Fd":
        base = Fd(u[0])
    else:
        raise BadCase(f"unknown object kind {k}")
    return base ** e if e != 1 else base


def build_pref(t):
    p, q = t.get("pref", [1, 1])
    if q == 0:
        raise BadCase("zero denominator")
    pref = Rational(p, q)
    if t.get("sqrt", 0):
        pref *= sqrt(int(t["sqrt"]))
    for s in t.get("syms", []):
        # "c1" or "c1^<int>" (powers, also negative: a division by a symbol)
        name, _, ex = s.partition("^")
        try:
            ex = int(ex) if ex else 1
        except ValueError:
            raise BadCase(f"bad symbol {s}")
        if not name.isidentifier() or ex == 0:
            raise BadCase(f"bad symbol {s}")
        pref *= Symbol(name) ** ex
    return pref


def build_term(t):
    res = build_pref(t)
    for o in t["objs"]:
        res = res * build_obj(o)
    return res


def build_sum(terms):
    return Add(*[build_term(t) for t in terms])


# -------------------------------------------------- label level utilities
def obj_labels(o):
    return list(o.get("u", [])) + list(o.get("l", []))


def term_label_count(t):
    cnt = Counter()
    for o in t["objs"]:
        w = abs(int(o.get("exp", 1)))
        for lbl in obj_labels(o):
            cnt[lbl] += w
    return cnt


def einstein_targets(t):
    return sorted(lbl for lbl, n in term_label_count(t).items() if n == 1)


def rename_term(t, mapping):
    """Alpha variant of a term description: rename labels (dict label->label)
    """
    out = {k: v for k, v in t.items() if k != "objs"}
    out["objs"] = []
    for o in t["objs"]:
        o2 = dict(o)
        for grp in ("u", "l"):
            if grp in o:
                o2[grp] = [mapping.get(x, x) for x in o[grp]]
        out["objs"].append(o2)
    return out


def sort_labels(labels):
    def key(lbl):
        name, spin = parse_label(lbl)
        return (SPACE_OF[name[0]], spin, int(name[1:]) if name[1:] else 0,
                name[0])
    return sorted(labels, key=key)


# ------------------------------------------------------------- catalogue
# kind, name, admissible (n_upper, n_lower), declared bra-ket symmetry
CATALOGUE = [
    ("A", "V", [(2, 2)], 0),
    ("A", "f", [(1, 1)], 0),
    ("A", "d", [(1, 1), (2, 2)], 0),
    ("A", "A", [(2, 1), (1, 2), (2, 2), (1, 1), (3, 3), (0, 2), (2, 0)], 0),
    ("A", "B", [(1, 1), (2, 2)], 1),
    ("A", "C", [(1, 1), (2, 2)], -1),
    ("T", "t1", [(2, 2)], 0),
    ("T", "t2", [(1, 1), (2, 2), (3, 3)], 0),
    ("T", "t1cc", [(2, 2)], 0),
    ("T", "t2cc", [(1, 1), (2, 2)], 0),
    ("T", "X", [(1, 1), (2, 2), (2, 1), (1, 2)], 0),
    ("T", "Y", [(1, 1), (2, 2), (1, 0), (0, 1)], 0),
    ("S", "R", [(1, 1), (2, 2), (2, 1)], 0),
    ("S", "v", [(2, 2)], 1),
    ("S", "M", [(1, 1), (2, 2)], -1),
    ("N", "x", [(2, 0)], 0),
    ("N", "y", [(3, 0)], 0),
    ("N", "z", [(1, 0)], 0),
    ("N", "w", [(4, 0)], 0),
    ("K", "delta", [(2, 0)], 0),
    ("F", "F", [(1, 0)], 0),
    ("Fd", "Fd", [(1, 0)], 0),
]
CAT_BY_NAME = {c[1]: c for c in CATALOGUE}


class Cfg:
    """Knobs of the expression strategy."""

    def __init__(self, **kw):
        self.names = None          # restrict catalogue to these names
        self.min_obj, self.max_obj = 1, 4
        self.max_terms = 3
        self.max_target = 4
        self.max_exp = 2
        self.allow_general = True
        self.allow_spin = True
        self.allow_numbered = True
        self.allow_hyper = False
        self.allow_explicit = True
        self.allow_symbols = True
        self.allow_sqrt = False
        self.symbol_powers = False   # c^2, 1/c next to plain symbols
        self.allow_delta = True
        self.allow_ops = False
        self.spin_modes = [False, False, False, True]
        self.max_slots = 12
        # 1/zero_deltas of the deltas link indices of different spaces or
        # opposite spins (such a delta - and the term - is identically zero)
        self.zero_deltas = 0
        self.__dict__.update(kw)

    def catalogue(self):
        cat = [c for c in CATALOGUE
               if (self.names is None or c[1] in self.names)]
        if not self.allow_delta:
            cat = [c for c in cat if c[0] != "K"]
        if not self.allow_ops:
            cat = [c for c in cat if c[0] not in ("F", "Fd")]
        ro = getattr(self, "rank_override", None) or {}
        cat = [(c[0], c[1], ro.get(c[1], c[2]), c[3]) for c in cat]
        w = getattr(self, "weights", None) or {}
        return [c for c in cat for _ in range(w.get(c[1], 1))]


# ADC amplitude vectors live on occupied/virtual indices only (the library
# asserts this when it names their blocks)
NO_GENERAL = {"X", "Y"}


def _antisym_conflict(objs, s1, s2):
    """Would giving slots s1, s2 the same label make the object vanish or
    degenerate?  slot = (obj index, group, position)"""
    if s1[0] != s2[0]:
        return False
    o = objs[s1[0]]
    if o["k"] == "K":
        return True
    if o["k"] in ("A", "T") and s1[1] == s2[1]:
        return True
    if o["k"] in ("A", "T", "S") and o.get("bk", 0) == -1 and s1[1] != s2[1] \
            and len(o["u"]) == 1 and len(o["l"]) == 1:
        return True   # d^i_i with bra-ket antisymmetry vanishes
    return False


@st.composite
def st_names(draw, space, n, numbered):
    """n distinct index names of a space"""
    letters = ALPHABET[space]
    pool = list(letters)
    if numbered:
        pool += [c + str(k) for k in (1, 2, 3, 10, 12) for c in letters[:3]]
    k = 20
    while n > len(pool):
        pool += [c + str(k) for c in letters]
        k += 1
    perm = draw(st.permutations(pool))
    return list(perm[:n])


@st.composite
def st_objshape(draw, cfg, cat=None):
    cat = cat or cfg.catalogue()
    k, name, ranks, bk = draw(st.sampled_from(cat))
    nu, nl = draw(st.sampled_from(ranks))
    e = 1
    if cfg.max_exp > 1 and k not in ("K", "F", "Fd") and nu + nl <= 4:
        e = draw(st.sampled_from([1] * 7 + list(range(2, cfg.max_exp + 1))))
    return {"k": k, "name": name, "u": [None] * nu, "l": [None] * nl,
            "bk": bk, "exp": e}


def _draw_spin(draw, spin_mode):
    if spin_mode is True:
        return draw(st.sampled_from("ab"))
    if spin_mode == "mixed":
        return draw(st.sampled_from(["", "", "a", "b"]))
    return ""


def _slots(objs):
    out = []
    for oi, o in enumerate(objs):
        for grp in ("u", "l"):
            for pos in range(len(o.get(grp, []))):
                out.append((oi, grp, pos))
    return out


@st.composite
def st_term_for_targets(draw, cfg, targets, spin_mode, general, numbered,
                        explicit, used_names):
    """One term whose free indices are exactly `targets` (list of labels).
    Returns a term description.  Construction only, no rejection."""
    cat = cfg.catalogue()
    n_obj = draw(st.integers(cfg.min_obj, cfg.max_obj))
    objs = []
    for _ in range(n_obj):
        o = draw(st_objshape(cfg, cat))
        if len(_slots(objs + [o])) > cfg.max_slots and objs:
            break
        objs.append(o)

    def target_capable(o):
        return explicit or o["exp"] == 1
    # make sure there are enough slots for the targets
    while sum(len(o["u"]) + len(o["l"]) for o in objs
              if target_capable(o)) < len(targets):
        objs.append({"k": "N", "name": "z", "u": [None], "l": [], "bk": 0,
                     "exp": 1})
    slots = _slots(objs)
    order = draw(st.permutations(range(len(slots))))
    slots = [slots[i] for i in order]
    label = {}
    # 1) targets
    tslots = [s for s in slots if target_capable(objs[s[0]])]
    todo = list(targets)
    for s in tslots:
        if not todo:
            break
        cand = todo[0]
        # two targets of incompatible class on one delta -> delta vanishes
        o = objs[s[0]]
        if o["name"] in NO_GENERAL and label_class(cand)[0] == "general":
            continue
        if o["k"] == "K":
            other = label.get((s[0], "u", 1 - s[2]))
            if other is not None and not _delta_ok(other, cand):
                continue
        label[s] = todo.pop(0)
    if todo:  # could not place (delta restrictions): add plain carriers
        for lbl in todo:
            objs.append({"k": "N", "name": "z", "u": [lbl], "l": [],
                         "bk": 0, "exp": 1})
    rest = [s for s in slots if s not in label]
    # 2) classes for the remaining slots
    spaces = ["occ", "virt"] + (["general"] if general else [])
    cls = {}
    for s in rest:
        o = objs[s[0]]
        if o["k"] == "K":
            partner = (s[0], "u", 1 - s[2])
            if partner in label:
                pc = label_class(label[partner])
            else:
                pc = cls.get(partner)
            if pc is not None:
                if general and draw(st.integers(0, 5)) == 0:
                    pc = ("general", pc[1])
                if spin_mode == "mixed" and draw(st.integers(0, 2)) == 0:
                    pc = (pc[0], draw(st.sampled_from(
                        ["", pc[1]] if pc[1] else ["", "a", "b"])))
                if cfg.zero_deltas and \
                        draw(st.integers(1, cfg.zero_deltas)) == 1:
                    if pc[1] and draw(st.booleans()):
                        pc = (draw(st.sampled_from(spaces)),
                              "b" if pc[1] == "a" else "a")
                    elif pc[0] != "general":
                        pc = ("virt" if pc[0] == "occ" else "occ", pc[1])
                cls[s] = pc
                continue
        if o["k"] == "T" and draw(st.integers(0, 6)) != 0:
            sp = "virt" if s[1] == "u" else "occ"
            if o["name"] in ("X", "Y") and len(o["u"]) + len(o["l"]) > 0:
                sp = "virt" if s[1] == "u" else "occ"
        elif o["name"] in NO_GENERAL:
            sp = draw(st.sampled_from(["occ", "virt"]))
        else:
            sp = draw(st.sampled_from(spaces))
        spin = _draw_spin(draw, spin_mode)
        cls[s] = (sp, spin)
    # 3) pairing inside classes
    groups = []   # list of lists of slots sharing one contracted label
    by_class = {}
    for s in rest:
        by_class.setdefault(cls[s], []).append(s)
    fillers = []
    for c, lst in by_class.items():
        lst = list(lst)
        while lst:
            s = lst.pop(0)
            w = objs[s[0]]["exp"]
            if w >= 2 and (not lst or draw(st.integers(0, 3)) != 0):
                groups.append((c, [s]))   # contracted with itself (power)
                continue
            partner = None
            for cand in lst:
                if _antisym_conflict(objs, s, cand):
                    continue
                if objs[s[0]]["k"] == "K" and objs[cand[0]]["k"] == "K":
                    continue  # an index living on deltas only
                partner = cand
                break
            if partner is None:
                fillers.append((c, s))
                continue
            lst.remove(partner)
            groups.append((c, [s, partner]))
    for c, s in fillers:
        # attach to an existing group of the class (hyper contraction) or
        # add a carrier object
        joined = False
        if cfg.allow_hyper and draw(st.booleans()):
            for gc, g in groups:
                if gc == c and not any(_antisym_conflict(objs, s, x)
                                       for x in g):
                    g.append(s)
                    joined = True
                    break
        if not joined:
            objs.append({"k": "N", "name": "z", "u": [None], "l": [],
                         "bk": 0, "exp": 1})
            groups.append((c, [s, (len(objs) - 1, "u", 0)]))
    if cfg.allow_hyper and len(groups) >= 2 and draw(st.integers(0, 3)) == 0:
        # merge two groups of equal class
        for x, y in itertools.combinations(range(len(groups)), 2):
            if groups[x][0] == groups[y][0] and not any(
                    _antisym_conflict(objs, a, b)
                    for a in groups[x][1] for b in groups[y][1]):
                groups[x][1].extend(groups[y][1])
                del groups[y]
                break
    # 4) names for the contracted groups
    per_class = Counter(c for c, _ in groups)
    names = {}
    for c, n in per_class.items():
        taken = {parse_label(t)[0] for t in list(targets) + list(used_names)
                 if label_class(t) == c}
        cand = draw(st_names(c[0], n + len(taken), numbered))
        names[c] = [x for x in cand if x not in taken][:n]
    for c, g in groups:
        nm = names[c].pop(0)
        lbl = f"{nm}:{c[1]}" if c[1] else nm
        for s in g:
            label[s] = lbl
    for (oi, grp, pos), lbl in label.items():
        objs[oi][grp][pos] = lbl
    # prefactor
    p = draw(st.sampled_from([1, 1, 1, -1, 2, -2, 3, 5, -7]))
    q = draw(st.sampled_from([1, 1, 1, 2, 3, 4, 12]))
    t = {"pref": [p, q], "sqrt": 0, "syms": [], "objs": objs}
    if cfg.allow_sqrt and draw(st.integers(0, 5)) == 0:
        t["sqrt"] = draw(st.sampled_from([2, 3, 6]))
    if cfg.allow_symbols and draw(st.integers(0, 7)) == 0:
        t["syms"] = [draw(st.sampled_from(["c1", "c2"]))]
        if cfg.symbol_powers and draw(st.booleans()):
            t["syms"] = [draw(st.sampled_from(
                ["c1^2", "c1^-1", "c2^-2", "c2^3", "c1^-1"]))] + \
                ([draw(st.sampled_from(["c2", "c1"]))]
                 if draw(st.booleans()) else [])
    return t


def _delta_ok(l1, l2):
    (s1, p1), (s2, p2) = label_class(l1), label_class(l2)
    if s1 != s2 and "general" not in (s1, s2):
        return False
    if p1 and p2 and p1 != p2:
        return False
    return parse_label(l1) != parse_label(l2)


@st.composite
def st_targets(draw, cfg, spin_mode, general, numbered):
    n = draw(st.integers(0, cfg.max_target))
    spaces = ["occ", "virt"] + (["general"] if general else [])
    labels = []
    for _ in range(n):
        sp = draw(st.sampled_from(spaces))
        spin = _draw_spin(draw, spin_mode)
        taken = {parse_label(x)[0] for x in labels
                 if label_class(x) == (sp, spin)}
        cand = draw(st_names(sp, len(taken) + 1, numbered))
        nm = [x for x in cand if x not in taken][0]
        labels.append(f"{nm}:{spin}" if spin else nm)
    return labels


@st.composite
def st_expr_case(draw, cfg):
    """A multi-term expression whose terms share their free indices."""
    spin_mode = draw(st.sampled_from(cfg.spin_modes)) if cfg.allow_spin \
        else False
    general = cfg.allow_general and draw(st.integers(0, 2)) == 0
    numbered = cfg.allow_numbered and draw(st.integers(0, 2)) == 0
    explicit = cfg.allow_explicit and draw(st.integers(0, 3)) == 0
    targets = draw(st_targets(cfg, spin_mode, general, numbered))
    n_terms = draw(st.integers(1, cfg.max_terms))
    terms = [draw(st_term_for_targets(cfg, targets, spin_mode, general,
                                      numbered, explicit, []))
             for _ in range(n_terms)]
    return {"terms": terms, "targets": sort_labels(targets),
            "explicit": explicit, "spin": bool(spin_mode)}


# --------------------------------------------------------------- rebuild
def rebuild(expr, mapping):
    """Simultaneous index substitution by reconstruction through the public
    constructors (independent of adcgen's subs/permute machinery)."""
    expr = S(getattr(expr, "sympy", expr))

    def m(i):
        return mapping.get(i, i)

    def rec(e):
        if isinstance(e, Index):
            return m(e)
        if isinstance(e, Amplitude):
            return Amplitude(e.name, [m(i) for i in e.upper],
                             [m(i) for i in e.lower], e.bra_ket_sym)
        if isinstance(e, SymmetricTensor):
            return SymmetricTensor(e.name, [m(i) for i in e.upper],
                                   [m(i) for i in e.lower], e.bra_ket_sym)
        if isinstance(e, AntiSymmetricTensor):
            return AntiSymmetricTensor(e.name, [m(i) for i in e.upper],
                                       [m(i) for i in e.lower], e.bra_ket_sym)
        if isinstance(e, NonSymmetricTensor):
            return NonSymmetricTensor(e.name, [m(i) for i in e.indices])
        if isinstance(e, KroneckerDelta):
            return KroneckerDelta(m(e.args[0]), m(e.args[1]))
        if isinstance(e, F):
            return F(m(e.args[0]))
        if isinstance(e, Fd):
            return Fd(m(e.args[0]))
        if isinstance(e, NO):
            return NO(rec(e.args[0]))
        if isinstance(e, Add):
            return Add(*[rec(a) for a in e.args])
        if isinstance(e, Mul):
            return Mul(*[rec(a) for a in e.args])
        if isinstance(e, Pow):
            return Pow(rec(e.args[0]), e.args[1])
        return e
    return rec(expr)


def doc_sequence(space, n):
    """documented sequence of 'lowest' index names of a space"""
    base = ALPHABET[space]
    out = list(base)
    k = 1
    while len(out) < n:
        out += [c + str(k) for c in base]
        k += 1
    return out


def rebuild_names(expr, name_map):
    """rename tensors (dict old -> new, applied to exact names and to the
    prefix of amplitude / density names) by reconstruction"""
    expr = S(getattr(expr, "sympy", expr))

    def nm(name):
        return name_map.get(name, name)

    def rec(e):
        if isinstance(e, Amplitude):
            return Amplitude(nm(e.name), e.upper, e.lower, e.bra_ket_sym)
        if isinstance(e, SymmetricTensor):
            return SymmetricTensor(nm(e.name), e.upper, e.lower,
                                   e.bra_ket_sym)
        if isinstance(e, AntiSymmetricTensor):
            return AntiSymmetricTensor(nm(e.name), e.upper, e.lower,
                                       e.bra_ket_sym)
        if isinstance(e, NonSymmetricTensor):
            return NonSymmetricTensor(nm(e.name), e.indices)
        if isinstance(e, Add):
            return Add(*[rec(a) for a in e.args])
        if isinstance(e, Mul):
            return Mul(*[rec(a) for a in e.args])
        if isinstance(e, Pow):
            return Pow(rec(e.args[0]), e.args[1])
        return e
    return rec(expr)
