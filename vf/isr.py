"""Explicit construction of ADC intermediate states as truncated power series
over a determinant space (F_p): excitation operators on the normalised
perturbed ground state, Gram-Schmidt against lower classes, symmetric
orthonormalisation S^-1/2.  Independent of adcgen."""
import itertools
from math import factorial

import numpy as np

from .model import P, inv, root, HarnessError
from .rspt import v_scale_series, v_dot_series, s_inv, s_sqrt

CLASSES = {"pp": ["ph", "pphh", "ppphhh"], "ip": ["h", "phh", "pphhh"],
           "ea": ["p", "pph", "ppphh"], "dip": ["hh", "phhh"],
           "dea": ["pp", "ppph"]}


def sort_sign(t):
    t = list(t)
    s = 1
    for x in range(len(t)):
        for y in range(len(t) - 1 - x):
            if t[y] > t[y + 1]:
                t[y], t[y + 1] = t[y + 1], t[y]
                s = -s
    return s, tuple(t)


class ISR:
    def __init__(self, pt, variant, classes, order):
        """pt: RSPT object (order >= requested order); classes: list of space
        strings, lowest first"""
        self.pt, self.variant, self.order = pt, variant, order
        fk = pt.fk
        m = pt.m
        N, no = m.N, m.no
        n = order
        self.fk = fk
        psi0 = pt.normalised()[:n + 1]
        self.psi0 = psi0
        self.configs = {}
        self.states = {}
        self.pre = {}
        lower_states = []
        for sp in classes:
            n_p, n_h = sp.count('p'), sp.count('h')
            confs = [(v, o)
                     for v in itertools.combinations(range(no, N), n_p)
                     for o in itertools.combinations(range(no), n_h)]
            self.configs[sp] = confs
            if not confs:
                self.states[sp] = []
                self.pre[sp] = []
                continue
            pre = []
            for (virt, occ) in confs:
                ops = [('c', a) for a in virt] + [('a', i) for i in occ]
                raw = [fk.apply_string(ops, psi0[k]) for k in range(n + 1)]
                st = raw
                if variant == "pp":
                    ov = v_dot_series(fk, psi0, raw, n)
                    proj = v_scale_series(fk, psi0, ov, n)
                    st = [fk.add(st[k], proj[k], -1) for k in range(n + 1)]
                for low in lower_states:
                    ov = v_dot_series(fk, low, raw, n)
                    proj = v_scale_series(fk, low, ov, n)
                    st = [fk.add(st[k], proj[k], -1) for k in range(n + 1)]
                pre.append(st)
            d = len(confs)
            S = [np.zeros((d, d), dtype=np.int64) for _ in range(n + 1)]
            for x in range(d):
                for y in range(d):
                    ser = v_dot_series(fk, pre[x], pre[y], n)
                    for k in range(n + 1):
                        S[k][x, y] = ser[k]
            if not (S[0] == np.eye(d, dtype=np.int64)).all():
                raise HarnessError("zeroth order precursor overlap is not 1")
            self.S = getattr(self, "S", {})
            self.S[sp] = S
            # B = S^-1, T = B^(1/2) as matrix power series
            B = [np.eye(d, dtype=np.int64)] + [None] * n
            for k in range(1, n + 1):
                acc = np.zeros((d, d), dtype=np.int64)
                for q in range(1, k + 1):
                    acc = (acc + S[q] @ B[k - q]) % P
                B[k] = (-acc) % P
            T = [np.eye(d, dtype=np.int64)] + [None] * n
            i2 = inv(2)
            for k in range(1, n + 1):
                acc = B[k].copy()
                for q in range(1, k):
                    acc = (acc - T[q] @ T[k - q]) % P
                T[k] = acc * i2 % P
            isr = []
            for y in range(d):
                st = [dict() for _ in range(n + 1)]
                for x in range(d):
                    tser = [int(T[k][x, y]) for k in range(n + 1)]
                    if not any(tser):
                        continue
                    add = v_scale_series(fk, pre[x], tser, n)
                    st = [fk.add(st[k], add[k]) for k in range(n + 1)]
                isr.append(st)
            self.states[sp] = isr
            self.pre[sp] = pre
            lower_states = lower_states + isr

    # ------------------------------------------------------------ lookups
    def lookup(self, sp, virt, occ):
        """(sign, position) of an unrestricted index tuple, sign 0 if it
        vanishes by antisymmetry"""
        if len(set(virt)) < len(virt) or len(set(occ)) < len(occ):
            return 0, None
        s1, v = sort_sign(virt)
        s2, o = sort_sign(occ)
        return s1 * s2, self.configs[sp].index((v, o))

    def matrix_series(self, sp1, sp2, apply_series, use_pre=False):
        """[order][x, y] of <I| Op |J>; apply_series(ket series) -> series"""
        n = self.order
        src = self.pre if use_pre else self.states
        A, Bs = src[sp1], src[sp2]
        M = [np.zeros((len(A), len(Bs)), dtype=np.int64)
             for _ in range(n + 1)]
        for y, ket in enumerate(Bs):
            hk = apply_series(ket)
            for x, bra in enumerate(A):
                ser = v_dot_series(self.fk, bra, hk, n)
                for k in range(n + 1):
                    M[k][x, y] = ser[k]
        return M

    def hamiltonian_series(self, subtract_gs=True):
        pt, fk, n = self.pt, self.fk, self.order
        h = pt.h

        def apply(ket):
            out = []
            for k in range(n + 1):
                v = h.H0(ket[k])
                if k >= 1:
                    v = fk.add(v, h.H1(ket[k - 1]))
                if subtract_gs:
                    for q in range(k + 1):
                        v = fk.add(v, ket[k - q], -pt.E[q])
                out.append(v)
            return out
        return apply

    def expand_unrestricted(self, sp1, idx1, sp2, idx2, M, model):
        """array over (idx1 + idx2) ranges from a restricted matrix M
        (idx: tuples of Index objects in the caller's order)"""
        tgt = tuple(idx1) + tuple(idx2)
        ranges = [model.positions(s) for s in tgt]
        out = np.zeros(tuple(len(r_) for r_ in ranges), dtype=np.int64)
        n1 = len(idx1)

        def split(I, asg):
            occ = tuple(x for s, x in zip(I, asg) if s.space == "occ")
            virt = tuple(x for s, x in zip(I, asg) if s.space == "virt")
            return virt, occ
        for pos in itertools.product(*[range(len(r_)) for r_ in ranges]):
            asg = [ranges[k][p_] for k, p_ in enumerate(pos)]
            s1, x = self.lookup(sp1, *split(idx1, asg[:n1]))
            if not s1:
                continue
            if sp2 is None:
                out[pos] = s1 * int(M[x]) % P
                continue
            s2, y = self.lookup(sp2, *split(idx2, asg[n1:]))
            if not s2:
                continue
            out[pos] = s1 * s2 * int(M[x, y]) % P
        return out

    def amplitude_tensor(self, model, sp, name, seed):
        """random normalised vector over the restricted configurations and
        the library's antisymmetric tensor Y = Ytilde / sqrt(n_o! n_v!)
        stored in the model as tensor `name` [virt..., occ...]"""
        confs = self.configs[sp]
        n_p, n_h = sp.count('p'), sp.count('h')
        rng = np.random.default_rng([seed, 99, n_p, n_h])
        xt = [int(v) for v in rng.integers(1, P, size=len(confs))]
        N = model.N
        arr = np.zeros((N,) * (n_p + n_h), dtype=np.int64)
        pf = inv(root(factorial(n_p) * factorial(n_h)))
        from .model import perm_sign
        for (virt, occ), x in zip(confs, xt):
            for pv in itertools.permutations(range(n_p)):
                for po in itertools.permutations(range(n_h)):
                    s = perm_sign(pv) * perm_sign(po)
                    arr[tuple(virt[k] for k in pv)
                        + tuple(occ[k] for k in po)] = s * x * pf % P
        model.set_tensor(name, n_p, n_h, arr, kind="anti", bk=0)
        return xt

    def self_test(self):
        """<I|J> = delta order by order, <I|Psi0> = 0 for pp"""
        n = self.order
        allst = [(sp, k) for sp in self.states
                 for k in range(len(self.states[sp]))]
        for (s1, x), (s2, y) in itertools.product(allst, repeat=2):
            ser = v_dot_series(self.fk, self.states[s1][x],
                               self.states[s2][y], n)
            exp = [1 if (s1, x) == (s2, y) else 0] + [0] * n
            if ser != exp:
                raise HarnessError(f"ISR not orthonormal: {s1}{x} {s2}{y} "
                                   f"{ser}")
        if self.variant == "pp":
            for sp, x in allst:
                ser = v_dot_series(self.fk, self.psi0, self.states[sp][x], n)
                if any(ser):
                    raise HarnessError("ISR not orthogonal to the gs")
