"""Self tests of the trusted base and small shared helpers."""
import itertools

import numpy as np

from .model import (Model, evaluate, brute_evaluate, P, HarnessError,
                    ModelResample)


def self_test_model():
    """evaluator vs. brute-force nested loops on tiny random products"""
    from adcgen.indices import get_symbols
    from adcgen.sympy_objects import (AntiSymmetricTensor as AT,
                                      NonSymmetricTensor as NT,
                                      SymmetricTensor as ST,
                                      KroneckerDelta as KD, Amplitude as Amp)
    from sympy import Rational, sqrt
    i, j, k, a, b, c, p, q = get_symbols("ijkabcpq")
    m = Model(12345, 2, 3)
    e_ = lambda s: NT("e", (s,))
    exprs = [
        (AT("V", (i, j), (a, b)) * Amp("t1", (a, b), (i, k)), (j, k)),
        (Rational(3, 7) * AT("f", (i,), (a,)) * NT("x", (a, i, j)) * KD(j, p),
         (p,)),
        (ST("R", (i, j), (a, b)) ** 2 * NT("z", (c,)), (c,)),
        (AT("V", (i, j), (a, b)) * NT("x", (i, a)) / (e_(a) - e_(i) + e_(b) - e_(j)),
         (j, b)),
        (sqrt(2) * AT("d", (p,), (q,)) * NT("x", (q, p)) + NT("z", (i,)) * NT("z", (i,)), ()),
        ((AT("f", (i,), (j,)) + KD(i, j) * 2) * NT("x", (j, k)), (i, k)),
    ]
    for ex, tgt in exprs:
        v = evaluate(m, ex, tgt)
        ref = _brute(m, ex, tgt)
        if not (v == ref).all():
            raise HarnessError(f"evaluator self-test failed for {ex}")
    # declared symmetries of generated tensors
    V = m.full_tensor("Q1", 2, 2, "anti", 1)
    assert ((V + V.transpose(1, 0, 2, 3)) % P == 0).all()
    assert ((V - V.transpose(2, 3, 0, 1)) % P == 0).all()
    S_ = m.full_tensor("Q2", 2, 2, "sym", -1)
    assert ((S_ - S_.transpose(1, 0, 2, 3)) % P == 0).all()
    assert ((S_ + S_.transpose(2, 3, 0, 1)) % P == 0).all()


def _brute(m, ex, tgt):
    """independent nested-loop evaluation via model.distribute-free path"""
    from .model import distribute, _atom_factor
    total = np.zeros(tuple(m.dim(t) for t in tgt), dtype=np.int64)
    for factors in distribute(ex):
        sc, facs = 1, []
        for f in factors:
            s, fa = _atom_factor(m, f)
            sc = sc * s % P
            facs += fa
        total = (total + brute_evaluate(m, facs, sc, tgt)) % P
    return total


def with_model(make_model, fn, tries=4):
    """run fn(model); redraw the model when a denominator vanishes in F_p.
    Returns (value, n_resampled)."""
    for t in range(tries):
        try:
            return fn(make_model(t)), t
        except ModelResample:
            continue
    raise ModelResample("could not find a model without zero denominators")


# --------------------------------------------------------------------------
# Taylor "recipes" of GroundState.expand_norm_factor ((1+x)^-1) and
# IntermediateStates.expand_S_taylor ((1+x)^-1/2): lists of
# (prefactor, [tuples of orders]).  Oracle: truncated power series arithmetic
# with random 2x2 matrices over F_p standing in for S^(n) (non-commuting, so
# the order of the factors in every tuple matters).
def check_taylor_recipe(recipe, order, min_order, exponent_num, seed):
    """recipe value == coefficient of lambda^order in (1 + X(lambda))^(p/2),
    p = exponent_num in (-2, -1), X = sum_{n>=min_order} S^(n) lambda^n.
    Returns None or a message."""
    import numpy as np
    from .model import P, inv, number_mod
    from sympy import Rational
    rng = np.random.default_rng([seed, 31337])
    eye = np.eye(2, dtype=object)
    zero = np.zeros((2, 2), dtype=object)
    S_ = {0: eye}
    for n in range(1, order + 1):
        S_[n] = zero if n < min_order else np.array(
            [[int(v) for v in row] for row in rng.integers(1, P, size=(2, 2))],
            dtype=object)

    def mul(a, b):   # truncated product of matrix power series
        out = [zero.copy() for _ in range(order + 1)]
        for i, x in enumerate(a):
            for j, y in enumerate(b):
                if i + j <= order:
                    out[i + j] = (out[i + j] + x.dot(y)) % P
        return out
    X = [zero] + [S_[n] for n in range(1, order + 1)]
    ref = zero.copy()
    power = [eye] + [zero.copy() for _ in range(order)]   # X^0
    binom = Rational(1)
    alpha = Rational(exponent_num, 2)
    for k in range(0, order + 1):
        if k > 0:
            power = mul(power, X)
            binom = binom * (alpha - (k - 1)) / k
        ref = (ref + number_mod(binom) * power[order]) % P
    val = zero.copy()
    try:
        for pref, tuples in recipe:
            acc = zero.copy()
            for tup in tuples:
                prod = eye
                for o in tup:
                    prod = prod.dot(S_[int(o)]) % P
                acc = (acc + prod) % P
            val = (val + number_mod(Rational(pref)) * acc) % P
    except (KeyError, TypeError, ValueError) as exc:
        return f"malformed recipe {recipe}: {exc!r}"
    if not (val == ref).all():
        return (f"recipe {recipe} does not evaluate to the order-{order} "
                f"coefficient of (1+x)^({exponent_num}/2), min_order="
                f"{min_order}")
    return None
