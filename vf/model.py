"""Tensor model over the prime field F_p: the value semantics every check uses.

Independent of adcgen's own algebra (simplify, symmetry, substitute_...): only the
public sympy object classes are inspected to read off (name, indices, declared
symmetry) of each factor.
"""
import itertools
import zlib

import numpy as np
from sympy import Add, Mul, Pow, Rational, Symbol, S, factorint
from sympy.physics.secondquant import FermionicOperator, NO

from adcgen.indices import Index
from adcgen.sympy_objects import (
    AntiSymmetricTensor, SymmetricTensor, Amplitude, NonSymmetricTensor,
    KroneckerDelta, SymbolicTensor,
)

P = 16777199  # largest prime < 2^24 with p = 23 (mod 24): sqrt(2), sqrt(3) exist
assert P % 24 == 23


class HarnessError(Exception):
    """Raised for inconsistencies inside the verification machinery itself."""


class ModelResample(Exception):
    """A denominator vanished in F_p for this model; draw another model."""


def inv(x):
    x = int(x) % P
    if x == 0:
        raise ModelResample("division by zero in F_p")
    return pow(x, P - 2, P)


def _tonelli(n):
    n %= P
    if n == 0:
        return 0
    if pow(n, (P - 1) // 2, P) != 1:
        raise HarnessError(f"{n} is no quadratic residue mod {P}")
    # P = 3 mod 4
    assert P % 4 == 3
    r = pow(n, (P + 1) // 4, P)
    return min(r, P - r)


_ROOTS = {}


def root(n):
    """Image of sqrt(n) in F_p, multiplicative: sqrt(ab)=sqrt(a)sqrt(b)."""
    n = int(n)
    assert n > 0
    r = 1
    for prime, mult in factorint(n).items():
        if prime not in _ROOTS:
            _ROOTS[prime] = _tonelli(prime)
        r = r * pow(prime, mult // 2, P) % P
        if mult % 2:
            r = r * _ROOTS[prime] % P
    return r


def number_mod(n):
    n = S(n)
    if n.is_Rational:
        return int(n.p) % P * inv(int(n.q)) % P
    if isinstance(n, Pow) and n.args[0].is_Integer and n.args[1].is_Rational \
            and n.args[1].q == 2:
        r = root(int(n.args[0]))
        e = int(n.args[1].p)
        return pow(r, e, P) if e >= 0 else pow(inv(r), -e, P)
    if isinstance(n, Mul):
        r = 1
        for a in n.args:
            r = r * number_mod(a) % P
        return r
    if isinstance(n, Add):
        return sum(number_mod(a) for a in n.args) % P
    if n.is_Float:
        return number_mod(Rational(str(n)))
    raise HarnessError(f"cannot map number {n!r} to F_p")


def perm_sign(p):
    p = list(p)
    s = 1
    for i in range(len(p)):
        while p[i] != i:
            j = p[i]
            p[i], p[j] = p[j], p[i]
            s = -s
    return s


def _stream(seed, *tags):
    key = [int(seed) & 0xFFFFFFFF]
    for t in tags:
        if isinstance(t, str):
            key.append(zlib.crc32(t.encode()))
        else:
            key.append(int(t) & 0xFFFFFFFF)
    return np.random.default_rng(key)


class Model:
    """A random assignment of values in F_p to every tensor name.

    n_occ / n_virt count spin orbitals when spin is False and *spatial*
    orbitals when spin is True (then each space has an alpha and a beta half).
    Orbital order: [occ alpha | occ beta | virt alpha | virt beta].
    """

    def __init__(self, seed, n_occ=2, n_virt=2, spin=False):
        self.seed = int(seed)
        self.spin = bool(spin)
        if spin:
            self.no_s, self.nv_s = n_occ, n_virt
            self.no, self.nv = 2 * n_occ, 2 * n_virt
            self.spin_of = (['a'] * n_occ + ['b'] * n_occ
                            + ['a'] * n_virt + ['b'] * n_virt)
            self.spatial_of = (list(range(n_occ)) * 2
                               + [n_occ + x for x in range(n_virt)] * 2)
        else:
            self.no, self.nv = n_occ, n_virt
            self.spin_of = None
        self.N = self.no + self.nv
        self.tensors = {}    # key -> full array over all orbitals
        self.meta = {}       # key -> (kind, bk) used at generation time
        self.bk = {}         # name -> bra-ket symmetry forced by assumptions
        self.alias = {}      # tensor name -> name whose values are used
        self.symbols = {}
        self.zero_blocks = {}  # name -> predicate(space string) -> bool (zero?)
        self._pos_cache = {}

    # ---------------------------------------------------------------- ranges
    def positions(self, idx):
        key = (idx.space, idx.spin)
        if key in self._pos_cache:
            return self._pos_cache[key]
        sp, sn = key
        if sp == "occ":
            rng = range(0, self.no)
        elif sp == "virt":
            rng = range(self.no, self.N)
        else:
            rng = range(self.N)
        if sn:
            if not self.spin:
                raise HarnessError("spin labelled index on a model without "
                                   "spin structure")
            pos = [x for x in rng if self.spin_of[x] == sn]
        else:
            pos = list(rng)
        self._pos_cache[key] = pos
        return pos

    def dim(self, idx):
        return len(self.positions(idx))

    # --------------------------------------------------------------- tensors
    def rand_array(self, shape, *tags):
        rng = _stream(self.seed, *tags)
        return rng.integers(1, P, size=shape, dtype=np.int64)

    def set_tensor(self, name, nu, nl, arr, kind="anti", bk=0):
        key = (name, nu, nl) if kind != "nonsym" else (name, "n", nu + nl)
        self.tensors[key] = np.asarray(arr, dtype=np.int64) % P
        self.meta[key] = (kind, bk)

    def full_tensor(self, name, nu, nl, kind, bk):
        """kind: 'anti' (AntiSymmetricTensor, Amplitude), 'sym', 'nonsym'."""
        if kind == "nonsym":
            key = (name, "n", nu + nl)
        else:
            key = (name, nu, nl)
        if key in self.tensors:
            okind, obk = self.meta[key]
            if okind != kind and "any" not in (okind, kind):
                raise HarnessError(f"tensor {key} used as {okind} and {kind}")
            if obk != bk and obk != "any":
                raise HarnessError(f"tensor {key} used with bra-ket sym "
                                   f"{obk} and {bk}")
            return self.tensors[key]
        N = self.N
        rank = nu + nl
        if N ** rank > 3_000_000:
            raise HarnessError(f"tensor {key} too large for the model")
        raw = self.rand_array((N,) * rank, name, str(key[1]), key[2])
        if kind == "nonsym":
            arr = raw
        else:
            sgn = kind == "anti"
            arr = np.zeros_like(raw)
            for pu in itertools.permutations(range(nu)):
                for pl in itertools.permutations(range(nl)):
                    axes = list(pu) + [nu + x for x in pl]
                    s = perm_sign(pu) * perm_sign(pl) if sgn else 1
                    arr = (arr + s * np.transpose(raw, axes)) % P
            if bk:
                if nu != nl:
                    raise HarnessError("bra-ket symmetry needs nu == nl")
                axes = list(range(nu, rank)) + list(range(nu))
                arr = (arr + bk * np.transpose(arr, axes)) % P
        self.tensors[key] = arr
        self.meta[key] = (kind, bk)
        return arr

    def symbol(self, name):
        if name not in self.symbols:
            self.symbols[name] = int(_stream(self.seed, "symbol", name)
                                     .integers(1, P))
        return self.symbols[name]

    def tensor_factor(self, t):
        """(array over the index ranges of t, index tuple) for tensor object"""
        name = self.alias.get(t.name, t.name)
        if isinstance(t, NonSymmetricTensor):
            idx = tuple(t.indices)
            arr = self.full_tensor(name, 0, len(idx), "nonsym", 0)
        else:
            kind = "sym" if isinstance(t, SymmetricTensor) else "anti"
            u, l = tuple(t.upper), tuple(t.lower)
            bk = self.bk.get(name, int(t.bra_ket_sym))
            arr = self.full_tensor(name, len(u), len(l), kind, bk)
            idx = u + l
        if not idx:
            return arr, idx
        return arr[np.ix_(*[self.positions(i) for i in idx])], idx

    def delta_factor(self, d):
        i, j = d.args
        eye = np.eye(self.N, dtype=np.int64)
        return eye[np.ix_(self.positions(i), self.positions(j))], (i, j)


# --------------------------------------------------------------------------
#  evaluation
# --------------------------------------------------------------------------

def _pow_arr(arr, exp):
    if exp >= 0:
        out = np.ones_like(arr)
        for _ in range(exp):
            out = out * arr % P
        return out
    flat = (arr % P).reshape(-1)
    if (flat == 0).any():
        raise ModelResample("zero denominator")
    invs = np.array([pow(int(x), P - 2, P) for x in flat],
                    dtype=np.int64).reshape(arr.shape)
    return _pow_arr(invs, -exp)


def _atom_factor(model, f):
    """-> (scalar, [(array, idx), ...]) for an atomic factor."""
    if f.is_number:
        return number_mod(f), []
    if isinstance(f, Pow):
        base, exp = f.args
        if not exp.is_Integer:
            raise HarnessError(f"non-integer exponent in {f}")
        exp = int(exp)
        if isinstance(base, Add):
            arr, idx = _add_array(model, base)
            return 1, [(_pow_arr(arr, exp), idx)]
        sc, facs = _atom_factor(model, base)
        if exp > 0:
            return pow(sc, exp, P), facs * exp
        if not facs:   # 1 / symbol^n
            return pow(inv(sc), -exp, P), []
        if len(facs) != 1:
            raise HarnessError(f"cannot invert {f}")
        arr, idx = facs[0]
        return (pow(inv(sc), -exp, P) if sc != 1 else 1,
                [(_pow_arr(arr, exp), idx)])
    if isinstance(f, Add):
        arr, idx = _add_array(model, f)
        return 1, [(arr, idx)]
    if isinstance(f, KroneckerDelta):
        return 1, [model.delta_factor(f)]
    if isinstance(f, SymbolicTensor):
        return 1, [model.tensor_factor(f)]
    if isinstance(f, Index):
        raise HarnessError(f"bare index {f} as factor")
    if isinstance(f, Symbol):
        return model.symbol(f.name), []
    if isinstance(f, (FermionicOperator, NO)):
        raise HarnessError(f"operator {f} in an expression to evaluate")
    raise HarnessError(f"cannot evaluate factor {f!r} of type {type(f)}")


def _add_array(model, add):
    """Point-wise value of a sum over the union of the indices it carries."""
    parts = []
    allidx = []
    for factors in distribute(add):
        sc, facs = 1, []
        for f in factors:
            s, fa = _atom_factor(model, f)
            sc = sc * s % P
            facs += fa
        parts.append((sc, facs))
        for _, idx in facs:
            for i in idx:
                if i not in allidx:
                    allidx.append(i)
    allidx = tuple(allidx)
    total = np.zeros(tuple(model.dim(i) for i in allidx), dtype=np.int64)
    for sc, facs in parts:
        total = (total + sc * contract(model, facs, allidx)) % P
    return total, allidx


_MAXSUM = 1 << 14


def _einsum2(model, a, ai, b, bi, out):
    """sum over indices not in out of a*b (mod P), overflow safe."""
    ids = {}

    def n(i):
        if i not in ids:
            ids[i] = len(ids)
        return ids[i]
    summed = [i for i in dict.fromkeys(ai + bi) if i not in out]
    keep = []
    nsum = 1
    for i in summed:
        nsum *= model.dim(i)
    # keep some summed indices for a second stage if the sum is too long
    while nsum > _MAXSUM and summed:
        i = summed.pop()
        keep.append(i)
        nsum //= model.dim(i)
    stage_out = list(out) + keep
    res = np.einsum(a, [n(i) for i in ai], b, [n(i) for i in bi],
                    [n(i) for i in stage_out]) % P
    if keep:
        res = res.sum(axis=tuple(range(len(out), len(stage_out)))) % P
    return res


def contract(model, facs, target):
    """Sum over all non-target indices of the product of the factor arrays.
    Result has one axis per entry of target (broadcast if an index is absent).
    """
    target = tuple(target)
    facs = [(np.asarray(a), tuple(i)) for a, i in facs]
    shape = tuple(model.dim(i) for i in target)
    if not facs:
        return np.ones(shape, dtype=np.int64)

    def needed(others):
        s = set(target)
        for _, idx in others:
            s.update(idx)
        return s

    # reduce each factor on its own: indices occurring nowhere else are summed
    red = []
    for k, (arr, idx) in enumerate(facs):
        others = facs[:k] + facs[k + 1:]
        nd = needed(others)
        out = [i for i in dict.fromkeys(idx) if i in nd]
        if list(idx) != out:
            one = np.ones((), dtype=np.int64)
            arr = _einsum2(model, arr, idx, one, (), tuple(out))
        red.append((arr % P, tuple(out)))
    facs = red
    while len(facs) > 1:
        # greedy: pair with the smallest result
        best = None
        for x in range(len(facs)):
            for y in range(x + 1, len(facs)):
                others = [f for k, f in enumerate(facs) if k not in (x, y)]
                nd = needed(others)
                out = [i for i in dict.fromkeys(facs[x][1] + facs[y][1])
                       if i in nd]
                size = 1
                for i in out:
                    size *= model.dim(i)
                shared = bool(set(facs[x][1]) & set(facs[y][1]))
                score = (size, not shared)
                if best is None or score < best[0]:
                    best = (score, x, y, tuple(out))
            if len(facs) > 6:
                break  # only consider pairs with the first factor
        _, x, y, out = best
        if np.prod([model.dim(i) for i in out], dtype=float) > 5e7:
            raise HarnessError("intermediate too large in model contraction")
        arr = _einsum2(model, facs[x][0], facs[x][1], facs[y][0], facs[y][1],
                       out)
        facs = [f for k, f in enumerate(facs) if k not in (x, y)]
        facs.insert(0, (arr, out))
    arr, idx = facs[0]
    have = [t for t in target if t in idx]
    ids = {i: k for k, i in enumerate(dict.fromkeys(idx))}
    res = np.einsum(arr, [ids[i] for i in idx], [ids[i] for i in have]) % P
    if len(set(target)) != len(target):
        raise HarnessError("repeated index in target tuple")
    sl = tuple(slice(None) if t in have else None for t in target)
    return np.broadcast_to(res[sl], shape).copy()


def distribute(expr):
    """Distribute products over sums in numerators: list of factor lists."""
    if isinstance(expr, Add):
        out = []
        for a in expr.args:
            out += distribute(a)
        return out
    if isinstance(expr, Mul):
        out = [[]]
        for f in expr.args:
            sub = distribute(f)
            out = [t + u for t in out for u in sub]
            if len(out) > 200000:
                raise HarnessError("expression too large to distribute")
        return out
    if isinstance(expr, Pow) and expr.args[1].is_Integer:
        base, e = expr.args[0], int(expr.args[1])
        if e > 0 and isinstance(base, (Add, Mul)):
            sub = distribute(base)
            out = [[]]
            for _ in range(e):
                out = [t + u for t in out for u in sub]
            return out
        if e < 0 and isinstance(base, Mul):
            return [[Pow(f, expr.args[1]) for f in base.args]]
    return [[expr]]


def evaluate(model, expr, target):
    """Array over the target index tuple of sum_{other indices} prod factors.
    expr: sympy expression (or an adcgen container)."""
    expr = getattr(expr, "sympy", expr)
    expr = S(expr)
    target = tuple(target)
    shape = tuple(model.dim(t) for t in target)
    total = np.zeros(shape, dtype=np.int64)
    for factors in distribute(expr):
        sc, facs = 1, []
        for f in factors:
            s, fa = _atom_factor(model, f)
            sc = sc * s % P
            facs += fa
        if sc == 0:
            continue
        total = (total + sc * contract(model, facs, target)) % P
    return total


def brute_evaluate(model, factors, scalar, target):
    """Reference nested-loop evaluator used only by the harness self-test.
    factors: list of (array, idx)."""
    allidx = list(target)
    for _, idx in factors:
        for i in idx:
            if i not in allidx:
                allidx.append(i)
    out = np.zeros(tuple(model.dim(t) for t in target), dtype=np.int64)
    for assign in itertools.product(*[range(model.dim(i)) for i in allidx]):
        amap = dict(zip(allidx, assign))
        v = scalar
        for arr, idx in factors:
            v = v * int(arr[tuple(amap[i] for i in idx)]) % P
        pos = tuple(amap[t] for t in target)
        out[pos] = (out[pos] + v) % P
    return out


# --------------------------------------------------------------------------
#  helpers shared by checks
# --------------------------------------------------------------------------

def einstein_target(expr_term):
    """The check's own Einstein rule for a single product term: indices that
    occur exactly once (counting |exponents|) are free. Returns a tuple sorted
    by (space, spin, number, letter)."""
    from collections import Counter
    cnt = Counter()
    expr_term = S(getattr(expr_term, "sympy", expr_term))
    if isinstance(expr_term, Add):
        raise HarnessError("einstein_target expects a single product")
    for f in (expr_term.args if isinstance(expr_term, Mul) else (expr_term,)):
        base, e = (f.args if isinstance(f, Pow) else (f, 1))
        e = abs(int(e)) if S(e).is_Integer else 1
        for i in _indices_of(base):
            cnt[i] += e
    return tuple(sorted((i for i, n in cnt.items() if n == 1), key=idx_key))


def _indices_of(obj):
    if isinstance(obj, (SymbolicTensor, KroneckerDelta)):
        return list(obj.idx)
    if isinstance(obj, FermionicOperator):
        return [obj.args[0]]
    if isinstance(obj, NO):
        return [o.args[0] for o in obj.args[0].args]
    if isinstance(obj, Add):
        s = []
        for a in obj.args:
            for i in a.atoms(Index):
                if i not in s:
                    s.append(i)
        return s
    return []


def idx_key(i):
    return (i.space, i.spin, int(i.name[1:]) if i.name[1:] else 0, i.name[0])


def all_indices(expr):
    expr = getattr(expr, "sympy", expr)
    return sorted(S(expr).atoms(Index), key=idx_key)
