"""Worker for C19: runs one request after a given call history in a fresh
process and prints the result text + value fingerprints as JSON."""
import hashlib
import json
import os
import sys

os.environ.setdefault("ADCGEN_LOG_LEVEL", "ERROR")
import warnings
warnings.filterwarnings("ignore")


def main():
    job = json.loads(sys.argv[1])
    import adcgen
    want = job.get("adcgen_root")
    if want and not os.path.realpath(adcgen.__file__).startswith(
            os.path.realpath(want)):
        print(json.dumps({"error": f"adcgen from {adcgen.__file__}"}))
        return
    from adcgen import (Expr, Operators, GroundState, IntermediateStates,
                        SecularMatrix, Properties, Intermediates, simplify,
                        reduce_expr)
    from adcgen.indices import Indices, get_symbols, Index
    from adcgen.tensor_names import tensor_names
    from vf.model import Model, evaluate, idx_key
    from vf.gen import rebuild_names
    from sympy import S

    tn = tensor_names
    objs = {}

    def gs(v="mp", singles=False):
        return objs.setdefault(("gs", v, singles), GroundState(
            Operators(v), first_order_singles=singles))

    def isr(v="pp"):
        return objs.setdefault(("isr", v), IntermediateStates(gs(), v))

    def sm(v="pp"):
        return objs.setdefault(("sm", v), SecularMatrix(isr(v)))

    def prop(v="pp"):
        return objs.setdefault(("prop", v), Properties(isr(v)))

    def itm(name):
        return Intermediates().available[name]
    REQ = {
        "energy2": (lambda: gs().energy(2), ""),
        "re_energy2": (lambda: gs("re").energy(2), ""),
        "re_energy2_s": (lambda: gs("re", True).energy(2), ""),
        "energy2_s": (lambda: gs("mp", True).energy(2), ""),
        "re_resid_1_s": (lambda: gs("re", True).amplitude_residual(
            1, "ph", "ia"), "ia"),
        "psi_1_s": (lambda: gs("mp", True).psi(1, "ket"), None),
        "mp_amp_2_ph": (lambda: gs().mp_amplitude(2, "ph", "ia"), "ia"),
        "mp_amp_1_pphh": (lambda: gs().mp_amplitude(1, "pphh", "ijab"),
                          "ijab"),
        "expec_2": (lambda: gs().expectation_value(2, 1), ""),
        "psi_2": (lambda: gs().psi(2, "ket"), None),
        "re_energy0": (lambda: gs("re").energy(0), ""),
        "re_resid_j3": (lambda: gs("re").amplitude_residual(
            1, "pphh", "j3k3ab"), "j3k3ab"),
        "norm_2": (lambda: gs().norm_factor(2), ""),
        "norm_4": (lambda: gs().norm_factor(4), ""),
        "expand_density": (lambda: Expr(
            __import__("adcgen").sympy_objects.AntiSymmetricTensor(
                f"{tn.gs_density}2", get_symbols("i"), get_symbols("j"), 1) *
            __import__("adcgen").sympy_objects.NonSymmetricTensor(
                "x", get_symbols("ij")) +
            __import__("adcgen").sympy_objects.AntiSymmetricTensor(
                f"{tn.gs_density}2", get_symbols("a"), get_symbols("b"), 1) *
            __import__("adcgen").sympy_objects.NonSymmetricTensor(
                "x", get_symbols("ab")), real=True
        ).expand_intermediates(fully_expand=False).sympy, ""),
        "precursor_1": (lambda: isr().precursor(1, "ph", "ket", "ia"), None),
        "overlap_pre_2": (lambda: isr().overlap_precursor(2, "ph,ph",
                                                          "ia,jb"), "iajb"),
        "m_ph_ph_1": (lambda: sm().isr_matrix_block(1, "ph,ph", "ia,jb"),
                      "iajb"),
        "m_ph_ph_2": (lambda: sm().isr_matrix_block(2, "ph,ph", "ia,jb"),
                      "iajb"),
        "m_ip_2": (lambda: sm("ip").isr_matrix_block(2, "h,h", "i,j"), "ij"),
        "mvp_1": (lambda: sm().mvp_block_order(1, "ph", "ph,ph", "ia"),
                  "ia"),
        "tm_1": (lambda: prop().trans_moment_space(1, "ph"), ""),
        "tm_2": (lambda: prop().trans_moment_space(2, "ph"), ""),
        "expec_block_1": (lambda: prop().expec_block_contribution(
            1, "ph,ph", 1), ""),
        "t2_2": (lambda: itm("t2_2").expand_itmd("ijab", True, True),
                 "ijab"),
        "t1_2_once": (lambda: itm("t1_2").expand_itmd("ia", True, False),
                      "ia"),
        "p0_2_oo": (lambda: itm("p0_2_oo").expand_itmd("ij", True, True),
                    "ij"),
        "p0_3_oo": (lambda: itm("p0_3_oo").expand_itmd("ij", True, True),
                    "ij"),
        "p0_3_vv": (lambda: itm("p0_3_vv").expand_itmd("ab", True, True),
                    "ab"),
        "t1_3": (lambda: itm("t1_3").expand_itmd("ia", True, True), "ia"),
        "t2eri_A": (lambda: itm("t2eri_A").expand_itmd("ijka", True, True),
                    "ijka"),
        "sym_denoms": (lambda: Expr(itm("t2_2").expand_itmd(
            "ijab", True, True), real=True).expand()
            .use_symbolic_denominators(), "ijab"),
        "reduce_t1_2": (lambda: reduce_expr(Expr(itm("t1_2").tensor(
            "ia", True) * itm("t2_1").tensor("ijab", True), real=True)).sympy,
            "jb"),
    }
    HIST = {
        "generic": lambda a: Indices().get_generic_indices(
            occ=a % 5 + 1, virt=a % 4 + 1, general=a % 3),
        "explicit": lambda a: Indices().get_indices(
            ["i7j9a3", "k3l4b3c5", "i3a3p3", "o11h12"][a % 4]),
        "spin": lambda a: get_symbols("ijab", "abab"),
    }

    for step in job["history"]:
        if step[0] in HIST:
            HIST[step[0]](step[1])
        else:
            REQ[step[0]][0]()
    fn, tgt = REQ[job["request"]]
    res = fn()
    real = job["request"] in ("reduce_t1_2",)
    has_ops = tgt is None
    # the free indices of the request are known: declare them (the Einstein
    # convention is not sufficient for results with denominators)
    kw = {"real": real}
    if isinstance(res, Expr):
        kw = dict(real=res.real, sym_tensors=list(res.sym_tensors) or None,
                  antisym_tensors=list(res.antisym_tensors) or None)
        res = res.sympy
    e = Expr(res, **kw) if has_ops else \
        Expr(res, target_idx=list(get_symbols(tgt)), **kw)
    out = {"request": job["request"]}
    if job["request"].startswith(("psi", "norm")):
        # requested repeatedly they must not share contracted indices
        again = Expr(fn())
        shared = set(S(again.sympy).atoms(Index)) & \
            set(S(e.sympy).atoms(Index))
        out["shared_contracted"] = sorted(str(s_) for s_ in shared)
    if job["request"].startswith("norm"):
        # every index of a norm factor is summed: exactly two occurrences
        from collections import Counter
        from sympy import Add, Mul, Pow
        bad = []
        for t in Add.make_args(S(e.sympy).expand()):
            cnt = Counter()
            for f in Mul.make_args(t):
                b_, x_ = (f.args if isinstance(f, Pow) else (f, 1))
                for i in getattr(b_, "idx", ()):
                    cnt[i] += int(x_)
            if any(n != 2 for n in cnt.values()):
                bad.append(str(t)[:120])
        out["malformed_terms"] = bad[:3]
    if has_ops:
        # operator valued: compare structure after generic -> canonical names
        out["text"] = None
        out["n_terms"] = len(e.expand())
        idx = [i for i in S(e.sympy).atoms(Index)]
        out["n_indices"] = len(idx)
    else:
        ex = e.expand().substitute_contracted()
        names_back = job.get("names_back") or {}
        ex_sympy = rebuild_names(ex.sympy, names_back) if names_back \
            else ex.sympy
        out["text"] = str(Expr(ex_sympy))
        out["n_terms"] = len(ex)
        tg = tuple(get_symbols(tgt)) if tgt else ()
        fps = []
        for seed, (no, nv) in ((77, (2, 2)), (78, (3, 2))):
            m = Model(seed, no, nv)
            for n in (1, 2, 3):
                m.alias[f"t{n}cc"] = f"t{n}"
            try:
                val = evaluate(m, ex_sympy, tg)
                fps.append(hashlib.sha1(val.tobytes()).hexdigest()[:12])
            except Exception as exc:   # zero denominators etc.
                fps.append(f"error:{type(exc).__name__}")
        out["fp"] = fps
        if job.get("default_text") and names_back:
            # the library's own mapping default -> configured names: the
            # default-name result imported with convert_default_names=True
            # has to be the configured-name result
            from adcgen import import_from_sympy_latex
            try:
                imp = import_from_sympy_latex(job["default_text"],
                                              convert_default_names=True)
                imp = Expr(imp.sympy, real=ex.real,
                           target_idx=list(get_symbols(tgt)))
                i_sympy = rebuild_names(imp.sympy, names_back)
                fps3 = []
                for seed, (no, nv) in ((77, (2, 2)), (78, (3, 2))):
                    m = Model(seed, no, nv)
                    for n in (1, 2, 3):
                        m.alias[f"t{n}cc"] = f"t{n}"
                    try:
                        val = evaluate(m, i_sympy, tg)
                        fps3.append(
                            hashlib.sha1(val.tobytes()).hexdigest()[:12])
                    except Exception as exc:
                        fps3.append(f"error:{type(exc).__name__}")
                out["convert_fp"] = fps3
                from adcgen.sympy_objects import SymbolicTensor as _ST
                out["convert_kinds"] = sorted(
                    {f"{t.name}:{type(t).__name__}"
                     for t in S(imp.sympy).atoms(_ST)} ^
                    {f"{t.name}:{type(t).__name__}"
                     for t in S(ex.sympy).atoms(_ST)})
            except Exception as exc:
                out["convert_error"] = f"{type(exc).__name__}: {exc}"
        if job.get("roundtrip"):
            # C18 under a tensor-name configuration: print -> import ->
            # same kinds, same text, same value
            from adcgen import import_from_sympy_latex
            from adcgen.sympy_objects import SymbolicTensor
            rt = {}
            try:
                text = str(ex)
                back = import_from_sympy_latex(text)
                back = Expr(back.sympy, real=ex.real,
                            sym_tensors=list(ex.sym_tensors) or None,
                            antisym_tensors=list(ex.antisym_tensors) or None,
                            target_idx=list(get_symbols(tgt)))
                rt["text"] = text[:300]
                rt["reprint"] = str(back)[:300] if str(back) != text else None
                k0 = {(t.name, type(t).__name__)
                      for t in S(ex.sympy).atoms(SymbolicTensor)}
                k1 = {(t.name, type(t).__name__)
                      for t in S(back.sympy).atoms(SymbolicTensor)}
                rt["kinds"] = sorted(map(str, k0 ^ k1))
                b_sympy = rebuild_names(back.sympy, names_back) \
                    if names_back else back.sympy
                fps2 = []
                for seed, (no, nv) in ((77, (2, 2)), (78, (3, 2))):
                    m = Model(seed, no, nv)
                    for n in (1, 2, 3):
                        m.alias[f"t{n}cc"] = f"t{n}"
                    try:
                        val = evaluate(m, b_sympy, tg)
                        fps2.append(
                            hashlib.sha1(val.tobytes()).hexdigest()[:12])
                    except Exception as exc:
                        fps2.append(f"error:{type(exc).__name__}")
                rt["fp"] = fps2
            except Exception as exc:
                import traceback
                rt["error"] = f"{type(exc).__name__}: {exc}"
                rt["trace"] = traceback.format_exc()[-800:]
            out["roundtrip"] = rt
        if job.get("simplify") and not any(
                x.args[1].is_negative and x.args[0].is_Add
                for x in S(ex.sympy).atoms(__import__("sympy").Pow)):
            sx = simplify(ex).substitute_contracted()
            sx_s = rebuild_names(sx.sympy, names_back) if names_back \
                else sx.sympy
            out["text_simplified"] = str(Expr(sx_s))
    print("C19RESULT " + json.dumps(out))


if __name__ == "__main__":
    main()
