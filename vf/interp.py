"""Independent interpreters of the artefacts the library produces:
contraction schemes (C16) and generated einsum / libtensor code (C17)."""
import re
from collections import Counter

import numpy as np
from sympy import S, Pow, Symbol

from adcgen.indices import Index
from adcgen.sympy_objects import (AntiSymmetricTensor, SymmetricTensor,
                                  Amplitude, NonSymmetricTensor,
                                  KroneckerDelta, SymbolicTensor)

from .model import P, contract, HarnessError, perm_sign


# ------------------------------------------------------------------ names
def my_longname(base):
    """The documented naming convention for tensors in contraction schemes /
    generated code, written out independently (defaults of tensor_names)."""
    if isinstance(base, KroneckerDelta):
        return "d_" + "".join(i.space[0] for i in base.idx)
    name = base.name
    idx = base.idx   # Amplitude: lower before upper, others upper, lower
    space = "".join(i.space[0] for i in idx)
    m = re.fullmatch(r"t(\d*)((?:cc)?)", name)
    if m and not isinstance(base, NonSymmetricTensor):
        rank = len(base.upper)
        ext = m.group(1) + m.group(2)
        return f"t{rank}_{ext}" if ext else f"t{rank}"
    if name in ("X", "Y") and not isinstance(base, NonSymmetricTensor):
        n_o, n_v = space.count("o"), space.count("v")
        n = n_o if n_o == n_v else min(n_o, n_v) + 1
        return f"u{'l' if name == 'X' else 'r'}{n}"
    m = re.fullmatch(r"p(\d*)", name)
    if m and not isinstance(base, NonSymmetricTensor):
        return f"p0_{m.group(1)}_{space}" if m.group(1) else f"p0_{space}"
    if name.startswith("t2eri"):
        return f"t2eri_{name[5:]}"
    if name == "t2sq":
        return name
    return f"{name}_{space}"


def term_leaves(term_sympy):
    """[(longname, idx tuple, base object)] with multiplicity, and the scalar
    part (numbers and Symbols) of a product."""
    from sympy import Mul
    leaves = []
    scalar = S.One
    for f in Mul.make_args(S(term_sympy)):
        base, e = (f.args if isinstance(f, Pow) else (f, 1))
        if f.is_number or isinstance(base, Symbol) and not isinstance(base, Index):
            scalar *= f
            continue
        if not isinstance(base, (SymbolicTensor, KroneckerDelta)) or \
                not S(e).is_Integer or int(e) < 1:
            raise HarnessError(f"unexpected factor {f} in a term to contract")
        for _ in range(int(e)):
            leaves.append((my_longname(base), tuple(base.idx), base))
    return leaves, scalar


def leaf_array(model, base):
    """array of a tensor/delta in the order of base.idx"""
    if isinstance(base, KroneckerDelta):
        return model.delta_factor(base)[0]
    arr, aidx = model.tensor_factor(base)
    idx = tuple(base.idx)
    if tuple(aidx) == idx:
        return arr
    # Amplitude: model order is upper+lower, idx order is lower+upper
    nu = len(base.upper)
    nl = len(base.lower)
    perm = list(range(nu, nu + nl)) + list(range(nu))
    return np.transpose(arr, perm)


# --------------------------------------------------------- scheme runner
class SchemeError(Exception):
    pass


def run_scheme(model, term_sympy, scheme, req_target):
    """Execute a list of Contraction objects. Returns (array, info).
    Raises SchemeError(sub, msg) for structural defects."""
    leaves, scalar = term_leaves(term_sympy)
    pool = Counter((nm, idx) for nm, idx, _ in leaves)
    arrays = {}
    for nm, idx, base in leaves:
        arrays[(nm, idx)] = leaf_array(model, base)
    # indices of the term that have to be summed
    all_idx = set(i for _, idx, _ in leaves for i in idx)
    to_sum = all_idx - set(req_target)
    summed_at = {}
    env = {}
    consumed = set()
    names = [c.contraction_name for c in scheme]
    if len(set(names)) != len(names):
        raise SchemeError("duplicate_step_name", str(names))
    for step_i, c in enumerate(scheme):
        if len(c.names) != len(c.indices):
            raise SchemeError("names_indices_mismatch", str(c))
        facs = []
        step_idx = set()
        for nm, idx in zip(c.names, c.indices):
            idx = tuple(idx)
            step_idx.update(idx)
            if nm in names:
                if nm not in env:
                    raise SchemeError("uses_later_step", f"{nm} in {c}")
                if nm in consumed:
                    raise SchemeError("intermediate_used_twice", f"{nm}")
                arr, aidx = env[nm]
                if tuple(aidx) != idx:
                    raise SchemeError("intermediate_indices",
                                      f"{nm} has indices {aidx}, used as {idx}")
                consumed.add(nm)
                facs.append((arr, idx))
            else:
                if pool[(nm, idx)] <= 0:
                    raise SchemeError("unknown_or_overused_leaf",
                                      f"({nm}, {idx}) in step {c}; term "
                                      f"{term_sympy}")
                pool[(nm, idx)] -= 1
                facs.append((arrays[(nm, idx)], idx))
        tgt = tuple(c.target)
        if len(set(tgt)) != len(tgt):
            raise SchemeError("repeated_target_index", str(c))
        if not set(tgt) <= step_idx:
            raise SchemeError("target_not_in_operands", str(c))
        if set(c.contracted) | set(tgt) != step_idx or \
                set(c.contracted) & set(tgt):
            raise SchemeError("contracted_target_split",
                              f"operands carry {step_idx}, contracted "
                              f"{c.contracted}, target {c.target}")
        for i in step_idx - set(tgt):
            if i in summed_at:
                raise SchemeError("index_summed_twice", f"{i} in {c}")
            if i not in to_sum:
                raise SchemeError("target_index_summed", f"{i} in {c}")
            summed_at[i] = step_i
            # must not be needed any more
            for (nm2, idx2), n in pool.items():
                if n > 0 and i in idx2:
                    raise SchemeError("index_summed_too_early",
                                      f"{i} summed in {c} but still on "
                                      f"unconsumed {nm2}{idx2}")
            for nm2, (_, idx2) in env.items():
                if nm2 not in consumed and i in idx2:
                    raise SchemeError("index_summed_too_early",
                                      f"{i} summed in {c} but still on {nm2}")
        res = contract(model, facs, tgt)
        env[c.contraction_name] = (res, tgt)
    left = {k: n for k, n in pool.items() if n}
    if left:
        raise SchemeError("leaf_not_used", f"{left}")
    final = [n for n in names if n not in consumed]
    if len(final) != 1 or final[0] != names[-1]:
        raise SchemeError("not_exactly_one_final_step", f"{final}")
    missing = [i for i in to_sum if i not in summed_at]
    if missing:
        raise SchemeError("index_never_summed", f"{missing}")
    arr, tgt = env[names[-1]]
    return arr, tgt, scalar


def recompute_scaling(c):
    idx = set()
    for t in c.indices:
        idx.update(t)
    comp = Counter(i.space for i in idx)
    mem = Counter(i.space for i in c.target)
    return ({"total": len(idx), **{s: comp[s] for s in ("general", "virt", "occ")}},
            {"total": len(set(c.target)),
             **{s: mem[s] for s in ("general", "virt", "occ")}})
