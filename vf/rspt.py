"""Rayleigh-Schroedinger perturbation theory by explicit linear algebra in
the determinant space of a random model Hamiltonian, exact arithmetic in F_p.
Independent of adcgen (only the documented conventions are used)."""
import itertools

import numpy as np

from .model import P, inv, ModelResample, HarnessError
from .fock import Fock, apply_op


def solve_mod(A, b):
    """solve A x = b over F_p (A: list of lists, b: list); A square"""
    n = len(A)
    M = [[int(v) % P for v in row] + [int(b[i]) % P]
         for i, row in enumerate(A)]
    for c in range(n):
        piv = next((r for r in range(c, n) if M[r][c]), None)
        if piv is None:
            raise ModelResample("singular H0 - E0 in F_p")
        M[c], M[piv] = M[piv], M[c]
        iv = inv(M[c][c])
        M[c] = [v * iv % P for v in M[c]]
        for r in range(n):
            if r != c and M[r][c]:
                f = M[r][c]
                M[r] = [(v - f * w) % P for v, w in zip(M[r], M[c])]
    return [M[r][n] for r in range(n)]


# ---- truncated power series helpers (lists indexed by order) -------------
def s_mul(a, b, n):
    return [sum(a[k] * b[m - k] for k in range(m + 1)) % P
            for m in range(n + 1)]


def s_inv(a, n):
    if a[0] % P != 1:
        raise HarnessError("series inverse needs a_0 = 1")
    b = [1] + [0] * n
    for m in range(1, n + 1):
        b[m] = (-sum(a[k] * b[m - k] for k in range(1, m + 1))) % P
    return b


def s_sqrt(b, n):
    if b[0] % P != 1:
        raise HarnessError("series sqrt needs b_0 = 1")
    a = [1] + [0] * n
    i2 = inv(2)
    for m in range(1, n + 1):
        a[m] = (b[m] - sum(a[k] * a[m - k] for k in range(1, m))) * i2 % P
    return a


class Hamiltonian:
    """Random model Hamiltonian on model.N spin orbitals.

    variant 'mp': H0 = sum f_pq a+_p a_q with f_ov = 0 (f diagonal if
    canonical); 're': H0 = the part of H that conserves the excitation class.
    H = sum f_pq a+p aq - sum V_{pi,qi} a+p aq + 1/4 sum V_{pq,rs} a+p a+q as ar
    """

    def __init__(self, model, variant="mp", canonical=True, f_ov=False):
        self.m = m = model
        N, no = m.N, m.no
        self.variant = variant
        self.fk = Fock(N, no)
        V = m.full_tensor("V", 2, 2, "anti", 1)
        m.bk["V"] = 1
        m.bk["f"] = 1
        e = m.rand_array((N,), "orbital_energies")
        if canonical:
            f = np.diag(e) % P
        else:
            f = m.full_tensor("f_raw", 1, 1, "anti", 1).copy()
        if not f_ov:
            f[:no, no:] = 0
            f[no:, :no] = 0
        if variant == "mp" and f_ov:
            raise HarnessError("the MP derivation assumes f_ov = 0")
        m.set_tensor("f", 1, 1, f, kind="anti", bk=1)
        if canonical:
            m.set_tensor("e", 0, 1, e, kind="nonsym")
        self.e, self.f, self.V = e, f, V
        self.canonical = canonical
        g = np.zeros((N, N), dtype=np.int64)   # - sum_i V_{pi,qi}
        for p in range(N):
            for q in range(N):
                g[p, q] = (-sum(int(V[p, i, q, i]) for i in range(no))) % P
        self.g = g
        occ = lambda x: x < no
        if variant == "mp":
            self.h0_1 = f.copy()
            self.h1_1 = g.copy()
            self.allowed0 = lambda p, q, r, s: False
            self.allowed1 = lambda p, q, r, s: True
        else:
            full1 = (f + g) % P
            h0 = np.zeros_like(full1)
            h0[:no, :no] = full1[:no, :no]
            h0[no:, no:] = full1[no:, no:]
            self.h0_1 = h0
            self.h1_1 = (full1 - h0) % P

            def cls_conserving(p, q, r, s):
                return sorted((occ(p), occ(q))) == sorted((occ(r), occ(s)))
            self.allowed0 = cls_conserving
            self.allowed1 = lambda p, q, r, s: not cls_conserving(p, q, r, s)

    def H0(self, vec):
        out = self.fk.one_body(self.h0_1, vec)
        if self.variant != "mp":
            out = self.fk.add(out, self.fk.two_body(self.V, vec,
                                                    self.allowed0))
        return out

    def H1(self, vec):
        out = self.fk.one_body(self.h1_1, vec)
        return self.fk.add(out, self.fk.two_body(self.V, vec, self.allowed1))

    def H(self, vec):
        return self.fk.add(self.H0(vec), self.H1(vec))


class RSPT:
    def __init__(self, ham, order):
        self.h = ham
        self.fk = fk = ham.fk
        self.m = ham.m
        self.order = order
        N, no = self.m.N, self.m.no
        ref = fk.ref
        dets = [sum(1 << o for o in c)
                for c in itertools.combinations(range(N), no)]
        self.dets = dets
        comp = [d for d in dets if d != ref]
        pos = {d: k for k, d in enumerate(comp)}
        h0ref = ham.H0({ref: 1})
        if any(d != ref for d in h0ref):
            raise HarnessError("H0 |Phi> is not proportional to |Phi>")
        E0 = h0ref.get(ref, 0)
        # matrix of (H0 - E0) on the complement
        A = [[0] * len(comp) for _ in comp]
        diag_only = True
        for d in comp:
            col = ham.H0({d: 1})
            for d2, c in col.items():
                if d2 == ref:
                    if c % P:
                        raise HarnessError("H0 couples Phi to the complement")
                    continue
                A[pos[d2]][pos[d]] = c
                if d2 != d:
                    diag_only = False
            A[pos[d]][pos[d]] = (A[pos[d]][pos[d]] - E0) % P
        psi = [{ref: 1}]
        E = [E0]
        for n in range(1, order + 1):
            rhs = ham.H1(psi[n - 1])
            En = rhs.get(ref, 0)
            E.append(En)
            # (H0 - E0) psi_n = -H1 psi_{n-1} + sum_{m>=1} E_m psi_{n-m}
            b = {d: (-c) % P for d, c in rhs.items() if d != ref}
            for k in range(1, n + 1):
                b = fk.add(b, {d: c for d, c in psi[n - k].items()
                               if d != ref}, E[k])
            bvec = [b.get(d, 0) for d in comp]
            if diag_only:
                x = [bv * inv(A[k][k]) % P if bv else 0
                     for k, bv in enumerate(bvec)]
            else:
                x = solve_mod(A, bvec)
            psi.append({d: v for d, v in zip(comp, x) if v})
        self.psi, self.E = psi, E

    # ------------------------------------------------------- amplitudes
    def amplitude_array(self, n, rank):
        """t^{ab..}_{ij..} as full array [virt..., occ...] over all orbitals
        (documented convention: psi = sum 1/(k!)^2 t {a+_a a+_b .. a_j a_i}
        |Phi>, doubles enter with a minus sign)"""
        N, no = self.m.N, self.m.no
        arr = np.zeros((N,) * (2 * rank), dtype=np.int64)
        if rank > min(no, N - no):
            return arr
        for occ in itertools.permutations(range(no), rank):
            for virt in itertools.permutations(range(no, N), rank):
                ops = [('c', a) for a in virt] + \
                    [('a', i) for i in reversed(occ)]
                (det, sg), = self.fk.apply_string(
                    ops, {self.fk.ref: 1}).items()
                coef = self.psi[n].get(det, 0) * sg % P
                if rank == 2:
                    coef = -coef % P
                arr[tuple(virt) + tuple(occ)] = coef
        return arr

    def install_amplitudes(self, max_rank=4):
        m = self.m
        for n in range(1, self.order + 1):
            for rank in range(1, min(2 * n, max_rank, m.no, m.nv) + 1):
                if m.N ** (2 * rank) > 20_000_000:
                    continue
                arr = self.amplitude_array(n, rank)
                m.set_tensor(f"t{n}", rank, rank, arr, kind="anti", bk=0)
                m.alias[f"t{n}cc"] = f"t{n}"

    # --------------------------------------------- normalised ground state
    def overlap_series(self):
        n = self.order
        return [sum(self.fk.dot(self.psi[k], self.psi[m_ - k])
                    for k in range(m_ + 1)) % P for m_ in range(n + 1)]

    def normalised(self):
        """Psi0(lambda) = Psi / sqrt(<Psi|Psi>) as a series of vectors"""
        n = self.order
        a = s_sqrt(s_inv(self.overlap_series(), n), n)
        return v_scale_series(self.fk, self.psi, a, n)

    def expectation_series(self, apply_op_fn):
        """[lambda^n] <Psi|D|Psi>/<Psi|Psi> for D given as vec -> vec"""
        n = self.order
        Dpsi = [apply_op_fn(self.psi[k]) for k in range(n + 1)]
        num = [sum(self.fk.dot(self.psi[k], Dpsi[m_ - k])
                   for k in range(m_ + 1)) % P for m_ in range(n + 1)]
        return s_mul(num, s_inv(self.overlap_series(), n), n)

    def self_test(self):
        """(H0 + lam H1) Psi = E Psi order by order"""
        fk, h = self.fk, self.h
        for n in range(self.order + 1):
            lhs = h.H0(self.psi[n])
            if n >= 1:
                lhs = fk.add(lhs, h.H1(self.psi[n - 1]))
            rhs = {}
            for k in range(n + 1):
                rhs = fk.add(rhs, self.psi[n - k], self.E[k])
            if fk.add(lhs, rhs, -1):
                raise HarnessError(f"RSPT self test failed at order {n}")


def v_scale_series(fk, vs, ss, n):
    out = []
    for m_ in range(n + 1):
        acc = {}
        for k in range(m_ + 1):
            if ss[m_ - k] % P:
                acc = fk.add(acc, vs[k], ss[m_ - k])
        out.append(acc)
    return out


def v_dot_series(fk, a, b, n):
    return [sum(fk.dot(a[k], b[m_ - k]) for k in range(m_ + 1)) % P
            for m_ in range(n + 1)]


def operator_apply(fk, N, d, nc, na, vec):
    """D = 1/(nc! na!) sum d[p.., q..] a+p1 a+p2 .. a_q2 a_q1 (library order)
    """
    from math import factorial
    out = {}
    pref = inv(factorial(nc) * factorial(na))
    for ps in itertools.product(range(N), repeat=nc):
        if len(set(ps)) < nc:
            continue
        for qs in itertools.product(range(N), repeat=na):
            if len(set(qs)) < na:
                continue
            c = int(d[ps + qs]) % P
            if not c:
                continue
            ops = [('c', p) for p in ps] + [('a', q) for q in reversed(qs)]
            out = fk.add(out, fk.apply_string(ops, vec), c * pref % P)
    return out


def density_series(pt, N):
    """D[n][p, q] = [lambda^n] <Psi|a+_p a_q|Psi> / <Psi|Psi>"""
    n = pt.order
    fk = pt.fk
    out = [np.zeros((N, N), dtype=np.int64) for _ in range(n + 1)]
    sinv = s_inv(pt.overlap_series(), n)
    for p in range(N):
        for q in range(N):
            Dpsi = [fk.apply_string([('c', p), ('a', q)], pt.psi[k])
                    for k in range(n + 1)]
            num = [sum(fk.dot(pt.psi[k], Dpsi[m_ - k])
                       for k in range(m_ + 1)) % P for m_ in range(n + 1)]
            ser = s_mul(num, sinv, n)
            for k in range(n + 1):
                out[k][p, q] = ser[k]
    return out
