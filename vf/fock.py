"""Fock-space oracle: determinants as bit masks, Fermi vacuum expectation
values, sparse vectors with coefficients in F_p. Independent of adcgen."""
import itertools

import numpy as np

from .model import P, inv


def apply_op(state, sign, kind, orb):
    """kind 'c' (create) / 'a' (annihilate) on a bit mask, Jordan-Wigner sign
    """
    if state is None:
        return None, 0
    bit = 1 << orb
    occ = bool(state & bit)
    if (kind == 'c') == occ:
        return None, 0
    if bin(state & (bit - 1)).count("1") % 2:
        sign = -sign
    return state ^ bit, sign


def normal_order(ops, n_occ):
    """Normal ordering w.r.t. the reference determinant |1..n_occ>: stable
    move of quasi creators (a+_virt, a_occ) to the left, sign of the
    permutation, no contractions. ops: [(kind, orb)]"""
    def is_qc(k, o):
        return (k == 'c' and o >= n_occ) or (k == 'a' and o < n_occ)
    ops = list(ops)
    sign = 1
    n = len(ops)
    for i in range(n):
        for j in range(n - 1 - i):
            if (not is_qc(*ops[j])) and is_qc(*ops[j + 1]):
                ops[j], ops[j + 1] = ops[j + 1], ops[j]
                sign = -sign
    # identical operators inside a normal ordered product vanish
    if len(set(ops)) != len(ops):
        return 0, ops
    return sign, ops


def vev(groups, n_occ):
    """<Phi| prod |Phi>; groups: [('op', (kind, orb)) | ('no', [(kind, orb)])]
    """
    seq = []
    sign = 1
    for g in groups:
        if g[0] == 'op':
            seq.append(g[1])
        else:
            s, o = normal_order(g[1], n_occ)
            if s == 0:
                return 0
            sign *= s
            seq.extend(o)
    ref = (1 << n_occ) - 1
    state = ref
    for k, o in reversed(seq):
        state, sign = apply_op(state, sign, k, o)
        if state is None:
            return 0
    return sign if state == ref else 0


class Fock:
    """Sparse vectors {determinant: coefficient mod P} over N spin orbitals
    """

    def __init__(self, n_orb, n_occ):
        self.N = n_orb
        self.no = n_occ
        self.ref = (1 << n_occ) - 1

    def apply_string(self, ops, vec):
        """ops applied right to left: ops = [(kind, orb), ...] as written"""
        out = {}
        for det, c in vec.items():
            st, sg = det, 1
            for k, o in reversed(ops):
                st, sg = apply_op(st, sg, k, o)
                if st is None:
                    break
            if st is None:
                continue
            v = (out.get(st, 0) + sg * c) % P
            if v:
                out[st] = v
            else:
                out.pop(st, None)
        return out

    @staticmethod
    def add(a, b, fb=1):
        out = dict(a)
        fb %= P
        if not fb:
            return out
        for k, v in b.items():
            w = (out.get(k, 0) + fb * v) % P
            if w:
                out[k] = w
            else:
                out.pop(k, None)
        return out

    @staticmethod
    def scale(a, f):
        f %= P
        return {k: v * f % P for k, v in a.items()} if f else {}

    @staticmethod
    def dot(a, b):
        if len(b) < len(a):
            a, b = b, a
        return sum(v * b.get(k, 0) for k, v in a.items()) % P

    def one_body(self, h, vec):
        """sum_pq h[p,q] a+_p a_q"""
        out = {}
        N = self.N
        for p in range(N):
            for q in range(N):
                c = int(h[p, q]) % P
                if c:
                    out = self.add(out, self.apply_string(
                        [('c', p), ('a', q)], vec), c)
        return out

    def two_body(self, V, vec, allowed=None):
        """1/4 sum V[p,q,r,s] a+_p a+_q a_s a_r (the library's order)"""
        out = {}
        N = self.N
        q4 = inv(4)
        for p, q in itertools.combinations(range(N), 2):
            for r, s in itertools.combinations(range(N), 2):
                c = int(V[p, q, r, s]) % P
                if not c:
                    continue
                if allowed is not None and not allowed(p, q, r, s):
                    continue
                # four equivalent permutations -> factor 4 * 1/4
                out = self.add(out, self.apply_string(
                    [('c', p), ('c', q), ('a', s), ('a', r)], vec), c)
        return out

    def two_body_full(self, V, vec):
        """reference implementation without using antisymmetry (self test)"""
        out = {}
        N = self.N
        q4 = inv(4)
        for p, q, r, s in itertools.product(range(N), repeat=4):
            c = int(V[p, q, r, s]) % P
            if c:
                out = self.add(out, self.apply_string(
                    [('c', p), ('c', q), ('a', s), ('a', r)], vec), c * q4)
        return out


def self_test():
    import random
    rng = random.Random(1)
    fk = Fock(4, 2)
    # anticommutation relations on random vectors
    dets = [d for d in range(16)]
    vec = {d: rng.randrange(1, P) for d in dets}
    for p in range(4):
        for q in range(4):
            a = fk.apply_string([('a', p), ('c', q)], vec)
            b = fk.apply_string([('c', q), ('a', p)], vec)
            s = fk.add(a, b)
            exp = vec if p == q else {}
            assert s == {k: v % P for k, v in exp.items()}, (p, q)
            a = fk.apply_string([('a', p), ('a', q)], vec)
            b = fk.apply_string([('a', q), ('a', p)], vec)
            assert fk.add(a, b) == {}
    # normal ordering of an ordered string is the string
    assert normal_order([('c', 3), ('a', 0)], 2) == (1, [('c', 3), ('a', 0)])
    assert vev([('op', ('c', 0)), ('op', ('a', 0))], 2) == 1
    assert vev([('op', ('a', 3)), ('op', ('c', 3))], 2) == 1
    assert vev([('no', [('a', 3), ('c', 3)])], 2) == 0
