"""Runner: ./check <ID> [--tier quick|thorough] [--replay file]

Spawns shard processes (fresh interpreters, PYTHONHASHSEED=0), merges their
results, handles known findings, writes replays and evidence.
Exit codes: 0 held, 1 violation(s) (VIOLATION lines), 2 harness error.
"""
import argparse
import hashlib
import importlib
import io
import json
import os
import re
import subprocess
import sys
import time
import traceback
from collections import Counter

ROOT = os.path.dirname(os.path.dirname(os.path.abspath(__file__)))
NSHARDS = int(os.environ.get("VERIF_SHARDS", "16"))


def case_hash(case):
    return hashlib.sha1(json.dumps(case, sort_keys=True, default=str)
                        .encode()).hexdigest()[:16]


# ------------------------------------------------------------------ result
class R:
    """Verdict of one executed case."""

    def __init__(self):
        self.fails = []      # (sub, msg)
        self.nontrivial = False
        self.classes = []
        self.refused = []
        self.sample = None
        self.resampled = 0
        self.excluded = []
        self.extra_evals = 0
        self.known = []      # (finding id, msg): reproduced known findings

    def fail(self, sub, msg):
        self.fails.append((sub, str(msg)[:600]))

    def cls(self, *labels):
        self.classes.extend(labels)

    def refuse(self, reason):
        self.refused.append(reason)


def adcgen_frame(tb):
    """innermost traceback frame inside the adcgen package (or None)"""
    found = None
    for fs in traceback.extract_tb(tb):
        fn = fs.filename.replace("\\", "/")
        if "/adcgen/" in fn and "/verif/" not in fn:
            found = f"{os.path.basename(fn)}:{fs.name}"
    return found


def lib_call(r, sub, fn, *args, refusals=(), **kw):
    """Call into the library. Returns (ok, value). Documented refusals are
    counted, any other exception raised from inside adcgen is a failure of
    sub-check `sub`; exceptions without an adcgen frame are harness errors."""
    from .model import HarnessError, ModelResample
    from .gen import BadCase
    try:
        return True, fn(*args, **kw)
    except (HarnessError, ModelResample, BadCase):
        raise
    except refusals as exc:
        msg = re.sub(r"[^A-Za-z ]+", " ", str(exc))[:40].strip()
        r.refuse(f"{sub}:{type(exc).__name__}:{msg}")
        return False, None
    except RecursionError as exc:
        r.fail(sub + "/exception", f"RecursionError")
        return False, None
    except Exception as exc:
        frame = adcgen_frame(exc.__traceback__)
        if frame is None:
            raise
        r.fail(f"{sub}/exception/{type(exc).__name__}@{frame}",
               f"{type(exc).__name__}: {exc}")
        return False, None


class CaseTimeout(BaseException):
    """raised by the SIGALRM handler (BaseException: not swallowed by the
    library's or the harness' 'except Exception')"""


class Collector:
    case_timeout = None
    timeouts = 0

    def __init__(self, prop, tier, budget_s):
        self.prop = prop
        self.tier = tier
        self.deadline = time.time() + budget_s
        self.evaluations = 0
        self.invalid = 0
        self.skipped_budget = 0
        self.nontrivial = set()
        self.samples = []
        self.classes = Counter()
        self.refused = Counter()
        self.excluded = Counter()
        self.resampled = 0
        self.failures = {}   # sig -> {"sub","msg","case","count"}
        self.harness = []
        self.known = Counter()

    def out_of_time(self):
        return time.time() > self.deadline

    def _timed(self, run_case, case):
        """run one case under an optional wall clock cap (SIGALRM)"""
        limit = self.case_timeout
        if not limit:
            return run_case(case)
        import signal

        def handler(signum, frame):
            raise CaseTimeout()
        old_h = signal.signal(signal.SIGALRM, handler)
        signal.alarm(int(limit))
        try:
            return run_case(case)
        finally:
            signal.alarm(0)
            signal.signal(signal.SIGALRM, old_h)

    def run(self, case, run_case):
        from .model import HarnessError, ModelResample
        from .gen import BadCase
        if self.out_of_time():
            self.skipped_budget += 1
            return None
        try:
            r = self._timed(run_case, case)
        except CaseTimeout:
            # inconclusive, never a violation
            self.timeouts += 1
            return None
        except BadCase:
            self.invalid += 1
            return None
        except ModelResample:
            self.resampled += 1
            return None
        except HarnessError as exc:
            self.harness.append(f"HarnessError: {exc} case={json.dumps(case, default=str)[:400]}")
            return None
        except Exception as exc:
            frame = adcgen_frame(exc.__traceback__)
            if frame is None:
                tb = traceback.format_exc()
                self.harness.append(f"{type(exc).__name__}: {exc}\n{tb[-1500:]}\ncase={json.dumps(case, default=str)[:400]}")
                return None
            # an exception escaping from the library on a generated input
            r = R()
            r.fail(f"uncaught/{type(exc).__name__}@{frame}",
                   f"{type(exc).__name__}: {exc}")
        self.evaluations += 1 + r.extra_evals
        self.resampled += r.resampled
        for c in r.classes:
            self.classes[c] += 1
        for c in r.refused:
            self.refused[c] += 1
        for c in r.excluded:
            self.excluded[c] += 1
        for fid, msg in r.known:
            self.known[fid] += 1
        h = case_hash(case)
        if r.nontrivial:
            self.nontrivial.add(h)
        if r.sample is not None and len(self.samples) < 6 and \
                (r.nontrivial or len(self.samples) < 2):
            self.samples.append({"case": case, "text": str(r.sample)[:700]})
        for sub, msg in r.fails:
            sig = sub
            if sig not in self.failures:
                self.failures[sig] = {"sub": sub, "msg": msg, "case": case,
                                      "count": 0}
            self.failures[sig]["count"] += 1
        return r

    def shrink_all(self, run_case, per_bucket_s=40):
        for sig, f in self.failures.items():
            try:
                f["case"], f["msg"] = shrink(f["case"], sig, run_case,
                                             time.time() + per_bucket_s,
                                             f["msg"])
            except Exception as exc:   # shrinking is best effort
                f["shrink_error"] = repr(exc)

    def dump(self):
        return {
            "evaluations": self.evaluations, "invalid": self.invalid,
            "skipped_budget": self.skipped_budget,
            "nontrivial": sorted(self.nontrivial), "samples": self.samples,
            "classes": dict(self.classes), "refused": dict(self.refused),
            "excluded": dict(self.excluded), "resampled": self.resampled,
            "timeouts": self.timeouts,
            "failures": self.failures, "harness": self.harness[:5],
            "known": dict(self.known),
        }


def fails_with(case, sig, run_case):
    from .model import HarnessError, ModelResample
    from .gen import BadCase
    try:
        r = run_case(case)
    except (BadCase, ModelResample, HarnessError):
        return None
    except Exception as exc:
        frame = adcgen_frame(exc.__traceback__)
        if frame is None:
            return None
        r = R()
        r.fail(f"uncaught/{type(exc).__name__}@{frame}",
               f"{type(exc).__name__}: {exc}")
    for sub, msg in r.fails:
        if sub == sig:
            return msg
    return None


def _paths(obj, prefix=()):
    if isinstance(obj, dict):
        for k in sorted(obj):
            yield from _paths(obj[k], prefix + (k,))
    elif isinstance(obj, list):
        yield prefix, obj
        for k, v in enumerate(obj):
            yield from _paths(v, prefix + (k,))


def _get(obj, path):
    for p in path:
        obj = obj[p]
    return obj


def shrink(case, sig, run_case, deadline, msg):
    """Greedy delta debugging on the JSON description: delete list elements,
    reduce integers."""
    import copy
    progress = True
    while progress and time.time() < deadline:
        progress = False
        for path, lst in list(_paths(case)):
            k = 0
            while k < len(_get(case, path)) and time.time() < deadline:
                cand = copy.deepcopy(case)
                del _get(cand, path)[k]
                m = fails_with(cand, sig, run_case)
                if m is not None:
                    case, msg = cand, m
                    progress = True
                else:
                    k += 1
        # integers
        def int_paths(o, prefix=()):
            if isinstance(o, dict):
                for kk in sorted(o):
                    yield from int_paths(o[kk], prefix + (kk,))
            elif isinstance(o, list):
                for kk, v in enumerate(o):
                    yield from int_paths(v, prefix + (kk,))
            elif isinstance(o, int) and not isinstance(o, bool):
                yield prefix, o
        for path, val in list(int_paths(case)):
            if time.time() > deadline:
                break
            for new in (1, 0, 2):
                if abs(new) >= abs(val) or new == val:
                    continue
                cand = copy.deepcopy(case)
                _get(cand, path[:-1])[path[-1]] = new
                m = fails_with(cand, sig, run_case)
                if m is not None:
                    case, msg = cand, m
                    progress = True
                    break
    return case, msg


def drive(strategy, run_case, n_examples, hseed, col):
    """Run a Hypothesis strategy n_examples times (collect, do not raise)."""
    from hypothesis import given, settings, seed, Phase, HealthCheck

    @seed(hseed)
    @settings(max_examples=n_examples, database=None, deadline=None,
              phases=[Phase.generate], derandomize=False,
              suppress_health_check=list(HealthCheck),
              report_multiple_bugs=False)
    @given(strategy)
    def test(case):
        col.run(case, run_case)
    test()


def drive_atheris(strategy, run_case, col, hseed, max_runs=10**9):
    """Coverage-guided campaign: libFuzzer (atheris) mutates the byte buffer
    that Hypothesis decodes into a case (fuzz_one_input); the library was
    imported under atheris.instrument_imports, so new branches in adcgen
    keep an input in the corpus. Does not return: atheris ends the process,
    the collector is written by col.finish() when the budget is used up."""
    import atheris
    import tempfile
    from hypothesis import given, settings, Phase, HealthCheck

    # Hypothesis 6.168: BytestringProvider.draw_integer rejection-samples the
    # raw bits against [min, max] without adding min, so every range that
    # does not start near 0 (e.g. the Fisher-Yates draws of st.permutations)
    # overruns the buffer and fuzz_one_input rejects every input. Harness-side
    # replacement (offset added):
    from hypothesis.internal.conjecture import providers as _prov

    def draw_integer(self, min_value=None, max_value=None, *, weights=None,
                     shrink_towards=0):
        if min_value is None and max_value is None:
            min_value, max_value = -(2**127), 2**127 - 1
        elif min_value is None:
            min_value = max_value - 2**64
        elif max_value is None:
            max_value = min_value + 2**64
        if min_value == max_value:
            return min_value
        span = max_value - min_value
        bits = span.bit_length()
        value = self._draw_bits(bits)
        while value > span:
            value = self._draw_bits(bits)
        return min_value + value
    _prov.BytestringProvider.draw_integer = draw_integer

    seen = set()

    @settings(database=None, deadline=None, phases=[Phase.generate],
              suppress_health_check=list(HealthCheck),
              report_multiple_bugs=False)
    @given(strategy)
    def test(case):
        h = case_hash(case)
        if h in seen:
            return
        seen.add(h)
        if col.run(case, run_case) is not None:
            col.classes["atheris_distinct_cases"] += 1
    fuzz = test.hypothesis.fuzz_one_input
    n = [0]

    def one(data):
        if col.out_of_time() or n[0] >= max_runs:
            col.extra = dict(col.extra or {}, atheris_runs=n[0],
                             atheris_distinct_cases=len(seen))
            try:
                # last libFuzzer status line: cov / features / corpus size
                with open(logpath, errors="replace") as fh:
                    stat = re.findall(r"cov: (\d+) ft: (\d+) corp: (\d+)",
                                      fh.read())
                if stat:
                    col.extra["atheris_last_status"] = [
                        "cov=%s ft=%s corpus=%s" % stat[-1]]
            except OSError:
                pass
            col.finish()
            sys.stdout.flush()
            os._exit(0)
        n[0] += 1
        fuzz(data)
    tmpdir = tempfile.mkdtemp(prefix="vf-atheris-")
    corpus = os.path.join(tmpdir, "corpus")
    os.mkdir(corpus)
    # starting corpus: seeded pseudo-random buffers (an empty corpus never
    # gets past Hypothesis' "buffer too short" rejection, which runs in
    # uninstrumented code and gives libFuzzer no gradient) - a pure function
    # of the seed
    import random
    rnd = random.Random(hseed)
    for k in range(48):
        with open(os.path.join(corpus, f"seed{k:02d}"), "wb") as fh:
            fh.write(rnd.randbytes(rnd.choice([128, 256, 512, 1024, 2048])))
    import atexit
    import shutil
    col.cleanup = lambda: shutil.rmtree(tmpdir, True)
    logpath = os.path.join(tmpdir, "libfuzzer.log")
    sys.stderr.flush()
    os.dup2(os.open(logpath, os.O_WRONLY | os.O_CREAT | os.O_TRUNC), 2)
    atheris.Setup([sys.argv[0], f"-seed={hseed % (2**31 - 1) + 1}",
                   "-max_len=2048", "-len_control=0", "-verbosity=1", "-print_final_stats=0",
                   corpus], one)
    atheris.Fuzz()


# shards that run a coverage-guided (atheris) stage: property -> tier -> shards
ATHERIS_SHARDS = {"C18": {"thorough": (12, 13, 14, 15), "quick": (14, 15)}}


# ------------------------------------------------------------------ shard
def run_shard(args):
    budget = float(args.budget)
    col = Collector(args.id, args.tier, budget)
    col.atheris = getattr(args, "atheris", False)
    mod = importlib.import_module(f"vf.props.{args.id.lower()}")
    col.case_timeout = getattr(mod, "CASE_TIMEOUT", {}).get(args.tier)
    t0 = time.time()
    col.extra = None

    def finish():
        if getattr(mod, "SHRINK", True):
            try:
                col.shrink_all(mod.run_case)
            except Exception as exc:
                col.harness.append(f"shrinking crashed: {exc!r}")
        out = col.dump()
        out["wall"] = time.time() - t0
        out["extra"] = col.extra
        with open(args.out, "w") as fh:
            json.dump(out, fh, default=str)
        if getattr(col, "cleanup", None):
            col.cleanup()
    col.finish = finish
    try:
        col.extra = mod.run_shard(col, args.shard, args.nshards, args.seed,
                                  args.tier)
    except Exception as exc:
        col.harness.append(f"shard crashed: {type(exc).__name__}: {exc}\n"
                           + traceback.format_exc()[-2000:])
        col.extra = None
    finish()
    return 0


# ----------------------------------------------------------------- parent
def load_known(prop):
    path = os.path.join(ROOT, "KNOWN_FINDINGS.json")
    if not os.path.exists(path):
        return []
    with open(path) as fh:
        return [k for k in json.load(fh)["findings"] if k["property"] == prop]


def parent(args):
    t0 = time.time()
    prop = args.id
    mod = importlib.import_module(f"vf.props.{prop.lower()}")
    tier = args.tier
    seed = int(os.environ.get("VERIF_SEED", "1") or 1)
    known = load_known(prop)
    violations = []
    notes = []
    replay_dir = os.path.join(ROOT, "replays", prop)

    # --- self test of the trusted base
    if hasattr(mod, "self_test"):
        try:
            mod.self_test()
        except Exception as exc:
            print(f"HARNESS-ERROR property={prop} self-test failed: "
                  f"{type(exc).__name__}: {exc}")
            traceback.print_exc()
            return 2

    # --- replay tier: known findings + saved replays
    regress = 0
    for k in known:
        for case in k.get("cases", []):
            msgs = []
            try:
                r = mod.run_case(case)
                msgs = [(s, m) for s, m in r.fails]
            except Exception as exc:
                frame = adcgen_frame(exc.__traceback__)
                msgs = [(f"uncaught/{type(exc).__name__}@{frame}",
                         repr(exc))]
            regress += 1
            hit = [(s, m) for s, m in msgs if re.search(k["sig_regex"], s)]
            other = [(s, m) for s, m in msgs
                     if not re.search(k["sig_regex"], s)]
            if k["status"] == "open":
                if hit:
                    print(f"KNOWN-FINDING: property={prop} {k['id']} "
                          f"{k['what']}")
                else:
                    notes.append(f"known finding {k['id']} did not reproduce")
                msgs = other
            for s, m in msgs:
                violations.append({"sub": s, "msg": m, "case": case,
                                   "origin": f"regression:{k['id']}"})
    if os.path.isdir(replay_dir):
        for fn in sorted(os.listdir(replay_dir)):
            if not fn.endswith(".json") or fn.startswith("new-"):
                continue
            with open(os.path.join(replay_dir, fn)) as fh:
                rep = json.load(fh)
            try:
                r = mod.run_case(rep["case"])
                regress += 1
                for s, m in r.fails:
                    if any(k["status"] == "open" and
                           k.get("generated_sig_regex") and
                           re.search(k["generated_sig_regex"], s)
                           for k in known):
                        continue
                    violations.append({"sub": s, "msg": m,
                                       "case": rep["case"],
                                       "origin": f"replay:{fn}"})
            except Exception as exc:
                notes.append(f"replay {fn} not runnable: {exc!r}")

    # --- generated campaign
    scratch = os.path.join(ROOT, ".scratch", "run", f"{prop}-{os.getpid()}")
    os.makedirs(scratch, exist_ok=True)
    budget = mod.BUDGET[tier]
    if os.environ.get("VERIF_BUDGET"):
        budget = float(os.environ["VERIF_BUDGET"])
    nsh = getattr(mod, "NSHARDS", NSHARDS)
    procs = []
    env = dict(os.environ)
    env["PYTHONHASHSEED"] = env.get("VERIF_HASHSEED", "0")
    env["PYTHONPATH"] = os.pathsep.join(
        [ROOT, os.path.join(ROOT, ".deps")] +
        ([env["PYTHONPATH"]] if env.get("PYTHONPATH") else []))
    for sh in range(nsh):
        out = os.path.join(scratch, f"shard{sh}.json")
        cmd = [sys.executable, "-m", "vf.runner", prop, "--tier", tier,
               "--shard", str(sh), "--nshards", str(nsh), "--seed", str(seed),
               "--budget", str(budget), "--out", out]
        log = open(os.path.join(scratch, f"shard{sh}.log"), "w")
        procs.append((subprocess.Popen(cmd, env=env, cwd=ROOT, stdout=log,
                                       stderr=subprocess.STDOUT), out, log))
    merged = {"evaluations": 0, "invalid": 0, "skipped_budget": 0,
              "nontrivial": set(), "samples": [], "classes": Counter(),
              "refused": Counter(), "excluded": Counter(), "resampled": 0,
              "failures": {}, "harness": [], "known": Counter(),
              "extra": [], "timeouts": 0}
    hard_timeout = budget * 3 + 600
    for p, out, log in procs:
        try:
            p.wait(timeout=max(30, hard_timeout - (time.time() - t0)))
        except subprocess.TimeoutExpired:
            p.kill()
            merged["harness"].append(f"shard timed out: {out}")
        log.close()
        if not os.path.exists(out):
            lg = open(log.name).read()[-1500:]
            merged["harness"].append(f"shard produced no result: {lg}")
            continue
        with open(out) as fh:
            d = json.load(fh)
        merged["evaluations"] += d["evaluations"]
        merged["invalid"] += d["invalid"]
        merged["skipped_budget"] += d["skipped_budget"]
        merged["nontrivial"].update(d["nontrivial"])
        if len(merged["samples"]) < 8:
            merged["samples"].extend(d["samples"][:2])
        merged["classes"].update(d["classes"])
        merged["refused"].update(d["refused"])
        merged["excluded"].update(d["excluded"])
        merged["known"].update(d["known"])
        merged["resampled"] += d["resampled"]
        merged["timeouts"] += d.get("timeouts", 0)
        merged["harness"].extend(d["harness"])
        if d.get("extra") is not None:
            merged["extra"].append(d["extra"])
        for sig, f in d["failures"].items():
            if sig not in merged["failures"]:
                merged["failures"][sig] = f
            else:
                merged["failures"][sig]["count"] += f["count"]
                # keep the smaller reproduction
                if len(json.dumps(f["case"])) < \
                        len(json.dumps(merged["failures"][sig]["case"])):
                    merged["failures"][sig]["case"] = f["case"]
                    merged["failures"][sig]["msg"] = f["msg"]
    if not os.environ.get("VERIF_KEEP_SCRATCH"):
        import shutil
        shutil.rmtree(scratch, ignore_errors=True)

    n_known_hits = 0
    for sig, f in merged["failures"].items():
        kf = [k for k in known if k["status"] == "open"
              and k.get("generated_sig_regex")
              and re.search(k["generated_sig_regex"], sig)]
        if kf:
            n_known_hits += f["count"]
            continue
        violations.append({"sub": sig, "msg": f["msg"], "case": f["case"],
                           "origin": "generated", "count": f["count"]})

    # --- report
    seen = set()
    n_viol = 0
    for v in violations:
        h = case_hash({"c": v["case"], "s": v["sub"]})
        if h in seen:
            continue
        seen.add(h)
        n_viol += 1
        os.makedirs(replay_dir, exist_ok=True)
        path = os.path.join(replay_dir, f"new-{h}.json")
        with open(path, "w") as fh:
            json.dump({"property": prop, "sub": v["sub"], "msg": v["msg"],
                       "case": v["case"], "origin": v["origin"]}, fh,
                      indent=1, default=str)
        print(f"VIOLATION property={prop} replay={path}")
        print(f"  sub-check: {v['sub']}\n  {v['msg'][:500]}")

    wall = time.time() - t0
    cov = {
        "evaluations": merged["evaluations"] + regress,
        "distinct_nontrivial": len(merged["nontrivial"]),
        "rule": mod.RULE,
        "samples": merged["samples"][:8],
        "classes": dict(merged["classes"]),
        "refused": dict(merged["refused"]),
        "excluded_by_construction": dict(merged["excluded"]),
        "resampled_models": merged["resampled"],
        "invalid_cases": merged["invalid"],
        "skipped_out_of_budget": merged["skipped_budget"],
        "case_timeouts_inconclusive": merged["timeouts"],
        "replayed_regressions": regress,
        "known_finding_hits": n_known_hits + sum(merged["known"].values()),
        "shards": nsh,
        "notes": notes,
    }
    if merged["extra"]:
        cov["extra"] = merge_extra(merged["extra"])
    if hasattr(mod, "finish"):
        mod.finish(cov)
    ev = {"property_id": prop, "tier": tier, "seed": seed,
          "level": "exploration", "coverage": cov,
          "assumptions": getattr(mod, "ASSUMPTIONS", []),
          "wall_s": round(wall, 2), "violations": n_viol}
    if merged["harness"]:
        ev["coverage"]["harness_errors"] = merged["harness"][:5]
    # evidence describes runs against /repo itself; a run against another
    # checkout (VERIF_REPO, used to try seeded changes) writes elsewhere
    ev_dir = os.path.join(ROOT, "evidence")
    if os.path.realpath(os.environ.get("VERIF_REPO", "/repo")) != \
            os.path.realpath("/repo"):
        ev_dir = os.path.join(ROOT, ".scratch", "evidence-other-checkout")
    os.makedirs(ev_dir, exist_ok=True)
    with open(os.path.join(ev_dir, f"{prop}.json"), "w") as fh:
        json.dump(ev, fh, indent=1, default=str)
    print(f"{prop} tier={tier} seed={seed}: evaluations="
          f"{cov['evaluations']} nontrivial={cov['distinct_nontrivial']} "
          f"violations={n_viol} known_hits={cov['known_finding_hits']} "
          f"refused={sum(merged['refused'].values())} wall={wall:.0f}s")
    if merged["harness"]:
        print(f"HARNESS-ERROR property={prop}: {len(merged['harness'])} "
              "error(s); first:")
        print(merged["harness"][0][:3000])
        return 1 if n_viol else 2
    if cov["distinct_nontrivial"] < 2 and not n_viol:
        print(f"HARNESS-ERROR property={prop}: fewer than 2 non-trivial cases")
        return 2
    return 1 if n_viol else 0


def merge_extra(extras):
    out = {}
    for e in extras:
        if not isinstance(e, dict):
            continue
        for k, v in e.items():
            if isinstance(v, (int, float)):
                out[k] = out.get(k, 0) + v
            elif isinstance(v, list):
                out.setdefault(k, [])
                if len(out[k]) < 10:
                    out[k].extend(v[:3])
            elif isinstance(v, dict):
                out.setdefault(k, {})
                for kk, vv in v.items():
                    if isinstance(vv, (int, float)):
                        out[k][kk] = out[k].get(kk, 0) + vv
                    else:
                        out[k][kk] = vv
            else:
                out[k] = v
    return out


def replay(args):
    mod = importlib.import_module(f"vf.props.{args.id.lower()}")
    with open(args.replay) as fh:
        rep = json.load(fh)
    case = rep["case"] if "case" in rep else rep
    r = mod.run_case(case)
    if r.sample is not None:
        print("case:", r.sample)
    if r.fails:
        for s, m in r.fails:
            print(f"VIOLATION property={args.id} replay={args.replay}")
            print(f"  sub-check: {s}\n  {m}")
        return 1
    print(f"{args.id}: replay holds")
    return 0


def main():
    ap = argparse.ArgumentParser()
    ap.add_argument("id")
    ap.add_argument("--tier", default=os.environ.get("VERIF_TIER") or "quick")
    ap.add_argument("--replay")
    ap.add_argument("--shard", type=int)
    ap.add_argument("--nshards", type=int, default=NSHARDS)
    ap.add_argument("--seed", type=int, default=1)
    ap.add_argument("--budget", default="60")
    ap.add_argument("--out")
    args = ap.parse_args()
    args.id = args.id.upper()
    if args.tier not in ("quick", "thorough"):
        args.tier = "quick"
    args.atheris = False
    if args.shard is not None and not args.replay and \
            args.shard in ATHERIS_SHARDS.get(args.id, {}).get(args.tier, ()) \
            and os.environ.get("VERIF_ATHERIS", "1") != "0":
        try:
            import atheris
            import contextlib
            # the library has to be imported under the instrumentation
            with contextlib.redirect_stderr(io.StringIO()):
                with atheris.instrument_imports(include=["adcgen"]):
                    import adcgen
            args.atheris = True
        except ImportError:
            args.atheris = False
    import adcgen
    repo = os.environ.get("VERIF_REPO", "/repo")
    if not os.path.realpath(adcgen.__file__).startswith(
            os.path.realpath(repo) + os.sep):
        print(f"HARNESS-ERROR adcgen imported from {adcgen.__file__}, "
              f"expected {repo}")
        return 2
    if args.replay:
        return replay(args)
    if args.shard is not None:
        return run_shard(args)
    return parent(args)


if __name__ == "__main__":
    sys.exit(main())
