#!/bin/bash
# Offline setup: install numpy (and atheris, best effort) next to the framework.
# Idempotent; used by MANIFEST.setup_cmd and by ./check.
set -e
cd "$(dirname "$0")"
DEPS="$PWD/.deps"
if ! PYTHONPATH="$DEPS" /venv/bin/python -c "import numpy" >/dev/null 2>&1; then
  mkdir -p "$DEPS"
  PIP_NO_INDEX=1 /venv/bin/python -m pip install -q --no-index --find-links /opt/veriftools/wheels \
      --target "$DEPS" numpy >/dev/null 2>&1 || { echo "setup: numpy install failed" >&2; exit 2; }
fi
if ! PYTHONPATH="$DEPS" /venv/bin/python -c "import atheris" >/dev/null 2>&1; then
  PIP_NO_INDEX=1 /venv/bin/python -m pip install -q --no-index --find-links /opt/veriftools/wheels \
      --target "$DEPS" atheris >/dev/null 2>&1 || true
fi
if ! /venv/bin/python -c "import hypothesis" >/dev/null 2>&1; then
  PIP_NO_INDEX=1 /venv/bin/python -m pip install -q --no-index --find-links /opt/veriftools/wheels \
      hypothesis >/dev/null 2>&1 || { echo "setup: hypothesis install failed" >&2; exit 2; }
fi
exit 0
